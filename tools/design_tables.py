#!/usr/bin/env python3
"""Rewrites the generated part of DESIGN.md section 8 (between the AUTOGEN markers) from mutants/last_run.log and
seeded/results.json."""
import json
import os
import re

V = os.path.dirname(os.path.dirname(os.path.abspath(__file__)))
rows = {}
for line in open(os.path.join(V, "mutants", "last_run.log")):
    m = re.match(r"(\S+) ok (\{.*\})$", line.strip())
    if not m:
        continue
    mid, res = m.group(1), json.loads(m.group(2))
    for pid, v in res.items():
        if pid == "suite":
            continue
        part = re.search(r"\[([^\]]+)\]", v)
        rows.setdefault(pid, {"mut": [], "seed": []})["mut"].append("%s%s" % (mid, " (`%s`)" % part.group(1) if part else " **MISSED**"))
seed = json.load(open(os.path.join(V, "seeded", "results.json")))
for d, r in sorted(seed.items()):
    rows.setdefault(r["property"], {"mut": [], "seed": []})["seed"].append(
        "%s (`%s`)" % (d, r["caught_by_part"]) if r["outcome"] == "caught" else "%s **%s**" % (d, r["outcome"].upper()))
out = ["| check | hand-written mutants caught (part of the check that fires) | independently seeded changes caught |", "|---|---|---|"]
for pid in sorted(rows):
    out.append("| %s | %s | %s |" % (pid, "; ".join(rows[pid]["mut"]) or "-", "; ".join(rows[pid]["seed"]) or "-"))
p = os.path.join(V, "DESIGN.md")
s = open(p).read()
a, b = "<!-- AUTOGEN:sensitivity -->", "<!-- /AUTOGEN:sensitivity -->"
s = s[:s.index(a) + len(a)] + "\n" + "\n".join(out) + "\n" + s[s.index(b):]
open(p, "w").write(s)
print("rows:", len(out) - 2)

# --------------------------------------------------------------------------- seeded/README.md
base = os.path.join(V, "seeded")
lines = ["# Independently seeded changes", "",
         "Each directory holds `patch.diff`, `demo.py` (exits 1 with the patch, 0 without) and `meta.json`. They were written by sub-agents "
         "that saw only the property text and a scratch worktree, and were confirmed with `tools/seeded.py verify` (repo suite passes with "
         "the patch). `tools/seeded.py all` re-runs every patch on a scratch copy against the quick check of its property and rewrites "
         "`results.json`; `tools/design_tables.py` rewrites this table. A change that its property's check does not catch carries the "
         "reason in `meta.json` (`not_caught_reason`).", "",
         "| change | property | what was changed | what it needs to manifest | quick check |", "|---|---|---|---|---|"]


def cell(t):
    return " ".join(str(t or "").split()).replace("|", "\\|")


n_caught = 0
for d in sorted(os.listdir(base)):
    mp = os.path.join(base, d, "meta.json")
    if not os.path.exists(mp):
        continue
    m = json.load(open(mp))
    r = seed.get(d, {})
    if r.get("outcome") == "caught":
        n_caught += 1
        res = "caught by `%s`" % r.get("caught_by_part", "")
    else:
        res = "**%s**: %s" % (r.get("outcome", "not run"), cell(m.get("not_caught_reason", "")))
    lines.append("| %s | %s | %s | %s | %s |" % (d, m.get("property"), cell(m.get("summary"))[:400], cell(m.get("needs"))[:400], res))
open(os.path.join(base, "README.md"), "w").write("\n".join(lines) + "\n")
print("seeded:", len(lines) - 7, "caught:", n_caught)
