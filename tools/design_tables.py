#!/usr/bin/env python3
"""Rewrites the generated part of DESIGN.md section 8 (between the AUTOGEN markers) from mutants/last_run.log and
seeded/results.json."""
import json
import os
import re

V = os.path.dirname(os.path.dirname(os.path.abspath(__file__)))
rows = {}
for line in open(os.path.join(V, "mutants", "last_run.log")):
    m = re.match(r"(\S+) ok (\{.*\})$", line.strip())
    if not m:
        continue
    mid, res = m.group(1), json.loads(m.group(2))
    for pid, v in res.items():
        if pid == "suite":
            continue
        part = re.search(r"\[([^\]]+)\]", v)
        rows.setdefault(pid, {"mut": [], "seed": []})["mut"].append("%s%s" % (mid, " (`%s`)" % part.group(1) if part else " **MISSED**"))
seed = json.load(open(os.path.join(V, "seeded", "results.json")))
for d, r in sorted(seed.items()):
    rows.setdefault(r["property"], {"mut": [], "seed": []})["seed"].append(
        "%s (`%s`)" % (d, r["caught_by_part"]) if r["outcome"] == "caught" else "%s **%s**" % (d, r["outcome"].upper()))
out = ["| check | hand-written mutants caught (part of the check that fires) | independently seeded changes caught |", "|---|---|---|"]
for pid in sorted(rows):
    out.append("| %s | %s | %s |" % (pid, "; ".join(rows[pid]["mut"]) or "-", "; ".join(rows[pid]["seed"]) or "-"))
p = os.path.join(V, "DESIGN.md")
s = open(p).read()
a, b = "<!-- AUTOGEN:sensitivity -->", "<!-- /AUTOGEN:sensitivity -->"
s = s[:s.index(a) + len(a)] + "\n" + "\n".join(out) + "\n" + s[s.index(b):]
open(p, "w").write(s)
print("rows:", len(out) - 2)
