#!/usr/bin/env python3
"""tools/intake_all.py /tmp/wt4 r4   - confirm and keep every change{1,2} of every property directory under the given base"""
import json
import os
import re
import subprocess
import sys

V = os.path.dirname(os.path.dirname(os.path.abspath(__file__)))
base, tag = sys.argv[1], sys.argv[2]
kept = 0
for pid in sorted(d for d in os.listdir(base) if re.fullmatch(r"C\d\d", d)):
    for n in ("1", "2"):
        meta = os.path.join(base, pid, "seeded", "meta%s.json" % n)
        if not os.path.exists(meta):
            print(pid, n, "no meta")
            continue
        try:
            summ = json.load(open(meta)).get("summary", "")
        except Exception:
            summ = ""
        words = re.findall(r"[a-z0-9]+", summ.lower())
        stop = {"the", "a", "an", "of", "to", "in", "is", "now", "and", "that", "with", "for", "it", "its", "so", "by", "on", "as", "are", "was", "from", "instead", "new", "no", "longer", "which"}
        slug = "-".join([w for w in words if w not in stop][:5]) or "change"
        name = "%s-%s%s-%s" % (pid, tag, n, slug[:40])
        r = subprocess.run([sys.executable, os.path.join(V, "tools", "intake.py"), pid, n, name], env=dict(os.environ, WT=base),
                           capture_output=True, text=True)
        ok = "kept as" in r.stdout
        kept += ok
        print(pid, n, "kept " + name if ok else "NOT CONFIRMED: " + r.stdout[-300:])
print("kept", kept)
