#!/usr/bin/env python3
"""tools/seed_prompts.py BASE   - create one scratch git worktree of /repo per property under BASE (outside /repo and /verif) and
write BASE/CNN.prompt.txt, the brief given to a fresh sub-agent: the text of ONE property, its own worktree, the ideas already
taken (summaries of seeded/*/meta.json) - nothing else from /verif.  Intake afterwards: tools/intake_all.py BASE TAG; then remove
the worktrees (git -C /repo worktree remove --force BASE/CNN; git -C /repo worktree prune; rm -rf BASE)."""
import subprocess
import sys

BASE = sys.argv[1]
subprocess.run(["mkdir", "-p", BASE], check=True)
for i in range(1, 19):
    subprocess.run(["git", "-C", "/repo", "worktree", "add", "-q", "--detach", "%s/C%02d" % (BASE, i), "HEAD"], check=True)
import json,os,glob
props={}
for l in open('/verif/properties.jsonl'):
    p=json.loads(l); props[p['id']]=p
tmpl='''You are helping to evaluate a verification harness by producing realistic *seeded defects* for a small Python library.

The library is gus-fr/py_ab ("pyab_experiment"): a small DSL for A/B experiment configs. A sly-based lexer/parser builds a pydantic AST, which is compiled to Python code that does deterministic hash-based weighted bucketing. You have your own private git worktree of it at:

    @BASE@/@ID@

Work ONLY inside that directory (never touch /repo, /verif or any other directory under @BASE@). Python is /venv/bin/python. To run the library's own test suite on your worktree:

    cd @BASE@/@ID@ && /venv/bin/python -m pytest -q -p no:cacheprovider

(59 tests, ~12 s; pytest's config puts the worktree's src first on sys.path.) To run your own scripts against the worktree's code use:

    cd @BASE@/@ID@ && PYTHONPATH=@BASE@/@ID@/src /venv/bin/python your_script.py

Read the source (src/pyab_experiment/, ~900 lines without the vendored sly/; the vendored sly/ lexer and parser runtime, the pydantic models in data_structures/syntax_tree.py and utils/custom_operators.py are fair game too), the docs (src/pyab_experiment/language/README.rst, README.md, docs/) and the tests first.

Here is a semantic property the library is supposed to satisfy:

-----
@PROPERTY@
-----

YOUR TASK: produce TWO different changes (different root causes, in different functions and preferably different files) to the library source, each of which

  1. BREAKS the property above (for some input / history / schedule the property's guarantee no longer holds),
  2. still imports and still PASSES the whole existing test suite (all 59 tests),
  3. looks like something a real developer could plausibly commit (an "optimisation", a refactoring, a well-meant feature, a subtle typo, an off-by-one, a changed default, a "robustness" tweak, an upgrade of the vendored parser runtime, a pydantic configuration tweak, a type-annotation driven change, a logging / metrics / debugging aid ...) - not sabotage guarded by a magic constant,
  4. needs SOMETHING SPECIFIC to manifest rather than breaking on every ordinary use. Do NOT produce a change that ordinary use would expose at once. The subtler and the narrower the trigger, the better, as long as your demo shows it deterministically.

This property has already been attacked many times. The following ideas are TAKEN - do not reuse their mechanism or their trigger, and do not produce a variation of them:
@AVOID@

Also taken as general mechanisms (for any property): a checksum / cache keyed on normalised, collapsed or tokenised source text; a weak change-detection fingerprint (adler32 / crc32 / length); functools.lru_cache or a memo on the compiled function, on parse_source, on rendering, on the stats helpers or on the choice function; skipping a recompile when the AST compares equal or the source is blank; a module- or class-level shared lexer / parser / code generator / exec namespace / compiled-function table; json.dumps / f-string / str.format / template-marker rendering of strings or of the key; a docstring or comment in the generated code that embeds user text; re-wrapping long generated lines; Unicode normalisation (NFC / NFKC), str.strip, str.splitlines, expandtabs or escape processing of literals or of the source; os.fsencode / locale-dependent encodings; "path or source text" conveniences (os.path.isfile, a .pyab suffix); `if not input_id` and `weight or 1` falsy-zero slips; greedy, fast-path or regex-prepass comment handling; sly's `ignore` string; signed, octal or hex numeric tokens in the lexer; weights rendered with %g or passed through float / Decimal / Fraction; merging, sorting, de-duplicating or dropping groups of a return statement; an exact-integer path for big totals; dividing the hash by 2^32-1 or using more digest bytes; validation under `if __debug__`; field names colliding with Python, helper or API parameter names; lazily built parser tables; deferred code generation; class-level mutable state in PythonCodeGen; extra recursion frames in the code generator; positional-parameter insertion in the stats helper; swapping confidence < 0.5; an absolute tolerance on a variance; StrictStr / constr / validators on AST fields; constant-folding of literal-only predicates; a bare identifier as a predicate; a generic header-option list; EBNF-style repetition for else-if; converting integral floats to ints in __call__; type guards on splitter values; eager debug logging of kwargs; a `last_variant` attribute; a process-CPU-time budget; `match` on list() for the weights; a Counter of returned groups; an `optimize` flag with a single-group fast path; __reduce__ / copy support; lifting or resetting sys.set_int_max_str_digits; a failed recompile that leaves the evaluator unloaded, leaks a lock or turns later recompiles into no-ops (single-flight); de-duplicating predicates across chains; a left-recursive tuple rule that reverses members; dropping parentheses around boolean sub-expressions; chunked parsing of long integers; a set / frozenset for literal `in` tuples; Token.__len__ truthiness; `weight : literal`; lowering else-if to nested ifs (indentation depth); a table-driven operator rule keyed by token text; a one-regex block comment that needs a body character; rejecting control characters; filtering kwargs with .get defaults; an isclose even-split fast path; a symbol table in which a condition use overwrites a splitter; smart-quote translation; nested block comments; version-aware string comparison; computing the key before routing; prefixing exception messages; compensated (Kahan) summation; a private Random instance; a shared generator for code-object file names; clamping the probit argument; rounding p*n; case-folding the key; a zero-weights check inside the recursive grammar rule; a guard against absorbed weights; a random fallback for ids that cannot be encoded; a cached_property of required fields; moving the field to the left of a comparison (un-Yoda); a typed tuple model without smart_union, or a Union that lists the model first; snapping a total to 1.0 with isclose; warnings.warn for zero weights; folding `not` into the complementary comparison; folding a guard-only nested if into `and`; an interval test for runs of consecutive integers; `\w` in the identifier pattern; a nullable tuple-member list; a nesting limit that counts chain links; a brace-balance pre-check; `salt\s*:` as one token; a regex that finds the experiment name in the raw source; case-insensitive ordering or matching of field names; a linear scan for short weight lists; iterating a set when building the key; replaying the last call as a canary on recompile; an id-clash check that mutates a module-level list; `sorted(splitting_fields)` with duplicates; bisect_left; `if salt:` for the empty salt; dropping a test whose branches are equal; `from math import inf` in the generated header; sampled tracing that draws from the global RNG; passing a lone splitter raw as the key; floor-division by a rounded bucket width; an epsilon in the non-positive-total check; one exec namespace shared by recompiles; a registry of live evaluators iterated while it changes; an int p read as a success count; clipping the interval to [0, 1]; binding the compiled function on the instance under the experiment's id; hash() of a tuple in the key; folding an or-chain of equalities into `in`; repr(tuple(...)) for tuple literals; ast.literal_eval for numbers; rounding the scaled hash position; escaping builtin / keyword field names with a trailing underscore; a constant key for a salt without splitters; decoding bytes values; a tolerance in == against float literals; exact-match keyword remapping that drops a word boundary; extra productions for `else` + `if` / `not` + `in`; a %-formatted unroutable message; a line comment that needs its line break; a recursive tokenize per lexer state change; all() / any() for long and / or chains; the experiment id as default salt; remembering every checksum ever loaded; a substring test instead of equality on the stored source; a map iterator consumed by a DEBUG log line; wrapping operands in str() depending on repr's quote; os.path.expandvars on the source; dropping an import decided before the traversal; pop() on the caller's cum_weights; sorted(values) == values on non-lists; clearing the previous exec namespace; a generation ticket in recompile; 2*atanh for the logit; stripping non-letters from the method name; math.isnan on huge ints; duck-typing .hex().

So you must find something genuinely NEW, and it must be a change a reviewer would wave through. Some unexplored directions: caches keyed by id(obj) or held in a WeakValueDictionary (object ids are reused after garbage collection); `is` where `==` is meant (small-int and interned-string caching hide it in tests); time-based behaviour (a TTL on a cache, `time.monotonic()` rate limiting of recompiles, a debounce); per-thread cached lexers / parsers (`threading.local`) that keep state after an error in that thread; default values, keyword-only / positional-only markers or type annotations in the generated signature; the generated code's handling of a field that is BOTH a splitter and compared inside a tuple; a code generator that mutates the AST it was given (sorting, normalising, popping) so that a second `generate()` or a second layout differs; `re` flags on the lexer (VERBOSE, DOTALL, MULTILINE) and anchors in token patterns; seeding a `random.Random(key)` instead of using the hash position; sample-variance (n-1) or continuity corrections in the interval helper, swapped bounds, returning a list / namedtuple; `sys.flags.utf8_mode`, `PYTHONIOENCODING`, `sys.getdefaultencoding()` assumptions; `str.title()` / `str.capitalize()` / locale-aware `str.lower()` on names; integer overflow assumptions when packing the hash position (`struct.unpack`, numpy-style 32-bit arithmetic); `round()` half-to-even versus floor when mapping a position to an index; Python's `bool` being an `int` (True == 1) in weights, group values or tuple members; augmented assignment on shared default arguments (`def f(x, acc=[])`).

For each change write, inside @BASE@/@ID@/seeded/ (create it):

  - change1.diff / change2.diff : the output of `git diff` for that change alone, relative to the worktree's HEAD (so each must apply on its own to a clean checkout with `git apply`; if you add a new file use `git add -N` first so that it is part of the diff),
  - demo1.py / demo2.py : a small self-contained program that exits 0 (prints OK) on the unmodified library and exits 1 (prints what went wrong) with the change applied. It must demonstrate a violation of THE PROPERTY ABOVE, via the public API (ExperimentEvaluator, parse_source / generate_code, deterministic_choice, confidence_interval ...). If the demo starts child interpreters, it must pass its own environment (os.environ, including PYTHONPATH) on to them,
  - meta1.json / meta2.json : {"property": "@ID@", "summary": "...one sentence what was changed...", "needs": "...what specific input / sequence / interleaving is needed for it to manifest...", "files": [...]}.

Procedure for each change: make the edit in the worktree; run the test suite (must be 59 passed); run your demo with the change (must exit 1); save `git diff > seeded/changeN.diff` (make sure the seeded/ directory itself is not part of the diff); then `git checkout -- src` (restore; also delete files you added) and run the demo again on the clean tree (must exit 0). Leave the worktree's src/ CLEAN (unmodified) when you finish.

Finally reply with a short report: for each change, the summary, what it needs to manifest, and the confirmation lines (tests passed with change: yes/no; demo fails with change: yes/no; demo passes without: yes/no).
'''
for pid,p in props.items():
    avoid=[]
    for d in sorted(glob.glob('/verif/seeded/%s-*/meta.json'%pid)):
        m=json.load(open(d)); avoid.append('  - '+(m['summary'] or '')[:150].replace('\n',' '))
    ptxt="Property %s: %s\n\nStatement: %s\n\nQuantifier: %s" % (p['id'],p['title'],p['statement'],p['quantifier']['text'])
    open(BASE + '/%s.prompt.txt' % pid,'w').write(tmpl.replace('@BASE@', BASE).replace('@ID@',pid).replace('@PROPERTY@',ptxt).replace('@AVOID@','\n'.join(avoid)))
print('ok')
