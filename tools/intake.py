#!/usr/bin/env python3
"""tools/intake.py C01 1 [name]  - confirm a sub-agent's seeded change and, if confirmed, keep it as seeded/<ID>-<name>/"""
import json
import os
import shutil
import subprocess
import sys

VERIF = os.path.dirname(os.path.dirname(os.path.abspath(__file__)))
pid, n = sys.argv[1], sys.argv[2]
src = "%s/%s/seeded" % (os.environ.get("WT", "/tmp/wt"), pid)
patch, demo, meta = [os.path.join(src, f % n) for f in ("change%s.diff", "demo%s.py", "meta%s.json")]
r = subprocess.run([sys.executable, os.path.join(VERIF, "tools", "seeded.py"), "verify", patch, demo], capture_output=True, text=True)
print(r.stdout[-700:], r.stderr[-300:])
if r.returncode != 0:
    print("NOT CONFIRMED")
    sys.exit(1)
ver = json.loads(r.stdout[r.stdout.index("{"):])
m = json.load(open(meta))
name = sys.argv[3] if len(sys.argv) > 3 else "%s-%s" % (pid, n)
dst = os.path.join(VERIF, "seeded", name)
os.makedirs(dst, exist_ok=True)
shutil.copy(patch, os.path.join(dst, "patch.diff"))
shutil.copy(demo, os.path.join(dst, "demo.py"))
m2 = {"property": pid, "summary": m.get("summary"), "needs": m.get("needs"), "files": m.get("files"),
      "origin": "independent sub-agent given only the property text and a scratch worktree",
      "confirmed_by": "tools/seeded.py verify (scratch copy of /repo): repo suite passes with the patch, demo exits %s with it and 0 without"
                      % ver["demo_exit_with_patch"],
      "demo_output_with_patch": ver["demo_output_with_patch"]}
json.dump(m2, open(os.path.join(dst, "meta.json"), "w"), indent=1)
print("kept as", dst)
