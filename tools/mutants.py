#!/usr/bin/env python3
"""Sensitivity self-test: apply each mutant (string replacement on a scratch copy of /repo, never /repo itself),
optionally confirm the repo's own suite still passes there, run the named quick checks with PYAB_SRC pointing at the
copy and expect exit 1.   usage: tools/mutants.py [--suite] [--only SUBSTR] [--props C03,C12] [--jobs N]
"""
import argparse
import concurrent.futures as cf
import json
import os
import shutil
import subprocess
import sys
import tempfile

VERIF = os.path.dirname(os.path.dirname(os.path.abspath(__file__)))


def run_one(m, suite, props_filter):
    tmp = tempfile.mkdtemp(prefix="pyab_mut_")
    try:
        dst = os.path.join(tmp, "repo")
        shutil.copytree("/repo", dst, ignore=shutil.ignore_patterns(".git", "__pycache__", "*.pyc", "docs"))
        for e in m["edits"]:
            p = os.path.join(dst, e["file"])
            s = open(p).read()
            if s.count(e["old"]) < 1:
                return m["id"], "PATCH-DOES-NOT-APPLY", {}
            s = s.replace(e["old"], e["new"]) if e.get("all") else s.replace(e["old"], e["new"], 1)
            open(p, "w").write(s)
        res = {}
        if suite:
            env = dict(os.environ, PYTHONPATH=os.path.join(dst, "src"), PYTHONDONTWRITEBYTECODE="1")
            r = subprocess.run(["/venv/bin/python", "-m", "pytest", "-q", "-p", "no:cacheprovider", "-x",
                                "-o", "pythonpath=. src"], cwd=dst, env=env, capture_output=True, text=True)
            res["suite"] = "pass" if r.returncode == 0 else "FAIL"
        for pid in m["props"]:
            if props_filter and pid not in props_filter:
                continue
            env = dict(os.environ, PYAB_SRC=os.path.join(dst, "src"), PYAB_NO_EVIDENCE="1")
            r = subprocess.run([os.path.join(VERIF, "check"), pid, "--tier", "quick"], cwd=VERIF, env=env,
                               capture_output=True, text=True)
            line = [l for l in r.stdout.splitlines() if l.startswith("  [")]
            res[pid] = {0: "MISSED", 1: "caught", 2: "HARNESS-ERROR"}.get(r.returncode, str(r.returncode))
            if r.returncode == 1 and line:
                res[pid] += " :: " + line[0][:160]
            if r.returncode == 2:
                res[pid] += " :: " + r.stderr[-300:]
        return m["id"], "ok", res
    finally:
        shutil.rmtree(tmp, ignore_errors=True)


def main():
    ap = argparse.ArgumentParser()
    ap.add_argument("--suite", action="store_true")
    ap.add_argument("--only")
    ap.add_argument("--props")
    ap.add_argument("--jobs", type=int, default=8)
    a = ap.parse_args()
    ms = json.load(open(os.path.join(VERIF, "mutants", "mutants.json")))
    if a.only:
        ms = [m for m in ms if a.only in m["id"]]
    pf = set(a.props.split(",")) if a.props else None
    if pf:
        ms = [m for m in ms if pf & set(m["props"])]
    bad = 0
    with cf.ThreadPoolExecutor(a.jobs) as ex:
        for mid, status, res in ex.map(lambda m: run_one(m, a.suite, pf), ms):
            print(mid, status, json.dumps(res))
            sys.stdout.flush()
            if status != "ok" or any(str(v).startswith(("MISSED", "HARNESS", "FAIL")) for v in res.values()):
                bad += 1
    print("mutants with problems:", bad)
    return 1 if bad else 0


if __name__ == "__main__":
    sys.exit(main())
