#!/usr/bin/env python3
"""Seeded-change workflow (scratch copies of /repo under /tmp, always removed):
  tools/seeded.py verify PATCH DEMO          confirm: suite passes with patch, demo fails with / passes without
  tools/seeded.py check  PATCH [IDs...]      run quick checks (default: all 18) against the patched copy
  tools/seeded.py all    [--tier quick]      run every seeded/<id>/patch.diff against the check of its property
"""
import concurrent.futures as cf
import json
import os
import shutil
import subprocess
import sys
import tempfile

VERIF = os.path.dirname(os.path.dirname(os.path.abspath(__file__)))
ALL = ["C%02d" % i for i in range(1, 19)]


def scratch(patch):
    tmp = tempfile.mkdtemp(prefix="pyab_seed_")
    dst = os.path.join(tmp, "repo")
    shutil.copytree("/repo", dst, ignore=shutil.ignore_patterns(".git", "__pycache__", "*.pyc", "docs", "seeded"))
    if patch:
        r = subprocess.run(["patch", "-p1", "-s", "-i", os.path.abspath(patch)], cwd=dst, capture_output=True, text=True)
        if r.returncode != 0:
            shutil.rmtree(tmp, ignore_errors=True)
            raise RuntimeError("patch does not apply: " + r.stdout + r.stderr)
    return tmp, dst


def suite(dst):
    env = dict(os.environ, PYTHONPATH=os.path.join(dst, "src"), PYTHONDONTWRITEBYTECODE="1")
    r = subprocess.run(["/venv/bin/python", "-m", "pytest", "-q", "-p", "no:cacheprovider", "-o", "pythonpath=. src"], cwd=dst, env=env,
                       capture_output=True, text=True)
    return r.returncode == 0, r.stdout[-300:]


def demo(dst, demo_path):
    env = dict(os.environ, PYTHONPATH=os.path.join(dst, "src"), PYTHONDONTWRITEBYTECODE="1")
    r = subprocess.run(["/venv/bin/python", os.path.abspath(demo_path)], cwd=dst, env=env, capture_output=True, text=True, timeout=600)
    return r.returncode, (r.stdout + r.stderr)[-400:]


def check(dst, pid, tier="quick", seed="1"):
    env = dict(os.environ, PYAB_SRC=os.path.join(dst, "src"), PYAB_NO_EVIDENCE="1", VERIF_SEED=seed)
    r = subprocess.run([os.path.join(VERIF, "check"), pid, "--tier", tier], cwd=VERIF, env=env, capture_output=True, text=True)
    lines = [l for l in r.stdout.splitlines() if l.startswith("  [")]
    return r.returncode, (lines[0][:220] if lines else (r.stderr[-300:] if r.returncode == 2 else ""))


def cmd_verify(patch, demo_path):
    tmp, dst = scratch(patch)
    try:
        ok, out = suite(dst)
        rc1, o1 = demo(dst, demo_path)
    finally:
        shutil.rmtree(tmp, ignore_errors=True)
    tmp, dst = scratch(None)
    try:
        rc0, o0 = demo(dst, demo_path)
    finally:
        shutil.rmtree(tmp, ignore_errors=True)
    res = {"suite_passes_with_patch": ok, "demo_exit_with_patch": rc1, "demo_exit_without_patch": rc0,
           "confirmed": bool(ok and rc1 != 0 and rc0 == 0), "demo_output_with_patch": o1.strip()[-300:]}
    print(json.dumps(res, indent=1))
    return 0 if res["confirmed"] else 1


def cmd_check(patch, pids, tier="quick"):
    tmp, dst = scratch(patch)
    try:
        with cf.ThreadPoolExecutor(8) as ex:
            for pid, (rc, line) in zip(pids, ex.map(lambda p: check(dst, p, tier), pids)):
                print(pid, {0: "quiet", 1: "VIOLATION", 2: "HARNESS-ERROR"}.get(rc, rc), line)
    finally:
        shutil.rmtree(tmp, ignore_errors=True)


def cmd_all(tier="quick", seed="1", match=None):
    base = os.path.join(VERIF, "seeded")
    rows = []
    for d in sorted(os.listdir(base)):
        meta_p = os.path.join(base, d, "meta.json")
        if not os.path.exists(meta_p) or (match and match not in d):
            continue
        meta = json.load(open(meta_p))
        rows.append((d, meta["property"], os.path.join(base, d, "patch.diff")))

    def one(row):
        d, pid, patch = row
        tmp, dst = scratch(patch)
        try:
            rc, line = check(dst, pid, tier, seed)
        finally:
            shutil.rmtree(tmp, ignore_errors=True)
        return d, pid, rc, line

    bad = 0
    results = {}
    with cf.ThreadPoolExecutor(8) as ex:
        for d, pid, rc, line in ex.map(one, rows):
            print("%-28s %s %s %s" % (d, pid, {0: "MISSED", 1: "caught", 2: "HARNESS-ERROR"}.get(rc, rc), line[:160]))
            bad += rc != 1
            part = line.strip()[1:].split("]")[0] if line.strip().startswith("[") else ""
            results[d] = {"property": pid, "tier": tier, "outcome": {0: "missed", 1: "caught", 2: "harness-error"}.get(rc, str(rc)),
                          "caught_by_part": part, "first_message": line.strip()[:300]}
    if seed == "1" and not match:
        with open(os.path.join(base, "results.json"), "w") as f:
            json.dump(results, f, indent=1, sort_keys=True)
    print("seeded changes not caught by their property's %s check: %d of %d" % (tier, bad, len(rows)))
    return 1 if bad else 0


if __name__ == "__main__":
    a = sys.argv[1:]
    if a and a[0] == "verify":
        sys.exit(cmd_verify(a[1], a[2]))
    if a and a[0] == "check":
        tier = "quick"
        rest = a[2:]
        if "--tier" in rest:
            i = rest.index("--tier")
            tier = rest[i + 1]
            rest = rest[:i] + rest[i + 2:]
        sys.exit(cmd_check(a[1], rest or ALL, tier))
    if a and a[0] == "all":
        tier = a[a.index("--tier") + 1] if "--tier" in a else "quick"
        seed = a[a.index("--seed") + 1] if "--seed" in a else "1"
        match = a[a.index("--match") + 1] if "--match" in a else None
        sys.exit(cmd_all(tier, seed, match))
    print(__doc__)
    sys.exit(2)
