#!/bin/bash
# run every quick check (optionally at several seeds) and summarise: tools/run_all.sh [tier] [seeds...]
cd "$(dirname "$0")/.."
tier=${1:-quick}; shift
seeds=${@:-1}
for s in $seeds; do
  for p in C01 C02 C03 C04 C05 C06 C07 C08 C09 C10 C11 C12 C13 C14 C15 C16 C17 C18; do
    ( VERIF_SEED=$s ./check $p --tier $tier > /tmp/runall_${p}_$s.out 2>&1; echo "$p seed=$s exit=$? $(grep -E 'evaluations' /tmp/runall_${p}_$s.out | tail -1)" ) &
    while [ $(jobs -r | wc -l) -ge 8 ]; do sleep 0.5; done
  done
done
wait
