#!/usr/bin/env python3
"""Regenerates /verif/MANIFEST.json from the table below (run after adding a check)."""
import json
import os

HERE = os.path.dirname(os.path.dirname(os.path.abspath(__file__)))

CHECKS = {
    "C02": dict(
        technique="property-based testing (Hypothesis grammar-directed program generator + enumerated catalogue) against an independent reference interpreter",
        text="Generated-input search: typed DSL programs x boundary inputs are executed on the real evaluator and on a 60-line reference interpreter that shares no code with the repo; any differing outcome is a violation. Exploration only: no absence claim beyond the generated / enumerated cases.",
        note="Trusts the reference interpreter (self-tested against the suite's expectations), Python's own comparison semantics, and that generated inputs are type-compatible.",
        ref="4.2"),
    "C03": dict(
        technique="property-based testing: generated + enumerated weight vectors at boundary grid points against an exact rational partition model; hash position substituted (canary) and black-box located by bisection",
        text="Generated-input search over weight vectors x grid points; oracle is exact Fraction arithmetic over the 2^32 grid. Path B locates real ids' positions black-box through the DSL so no hash scheme is assumed. Exploration only.",
        note="Trusts Python Fractions and the stated 1e-12*total ambiguity zone (empty when the double arithmetic is provably exact).",
        ref="4.3"),
    "C12": dict(
        technique="property-based testing: differential against an independent re-implementation of the published MD5/UTF-8 scheme, plus RFC 1321 known-answer vectors",
        text="Every generated (program, inputs) assignment is recomputed from the property's description alone (salt + str(values) in alphabetical field order, MD5, first 32 bits, exact partition) and compared with the evaluator. Exploration only.",
        note="Trusts hashlib.md5 (checked against RFC 1321 vectors at start-up) and the partition model of C03.",
        ref="4.12"),
    "C16": dict(
        technique="property-based testing: algebraic laws (weights == cum_weights, unweighted == equal integer weights), identity/immutability checks, documented error classes, seeded chi-square for the random branch",
        text="Generated argument tuples, well-formed and malformed, checked against laws that need no reference implementation. Exploration only.",
        note="Trusts the docstring / random.choices contract for which errors are documented; chi-square at 1e-9 with seeded random.",
        ref="4.16"),
    "C18": dict(
        technique="property-based testing + dense grid enumeration against the textbook formulas and statistics.NormalDist quantile",
        text="Grid (n log-grid x p x confidence x method) and generated floats; oracles: transcription of Agresti-Coull / Wald with the module's own z, monotonicity along grid lines, symmetry and conservativeness of probit vs the exact normal quantile. Exploration only.",
        note="Trusts statistics.NormalDist.inv_cdf and the stated float tolerances (1e-12 relative; propagated argument rounding for symmetry).",
        ref="4.18"),
    "C09": dict(
        technique="property-based testing: metamorphic relations between pairs of calls / pairs of programs (equalities for irrelevant changes, inequalities for relevant ones)",
        text="Generated programs and inputs; each result is compared with its metamorphic twins (extra kwargs, renamed experiment, permuted splitters, permuted arguments, same-route condition changes, missing field, varied splitter values, varied salts). No reference hash is needed. Exploration only.",
        note="Trusts the reference interpreter for 'same route'; inequality relations are probabilistic with false-alarm probability < 1e-9 per case.",
        ref="4.9"),
    "C10": dict(
        technique="property-based testing: monotone-coupling and interval-intersection invariants over families of weight vectors evaluated on the same units",
        text="Generated chains of weight vectors ordered by prefix shares (exact integer construction), each evaluated as its own program and as a branch of a routed program; oracle: no unit moves to a later group, and all observed (vector, group) pairs of a unit admit one common position. Exploration only.",
        note="Trusts exact Fraction prefix shares with a 1e-12 widening; no hash scheme assumed.",
        ref="4.10"),
    "C15": dict(
        technique="property-based testing: generated field values of every listed type / salts of any characters; totality and str()-equivalence oracle",
        text="Generated str/int/float/bool/None values (all Unicode planes, NUL, 1e5-character strings, 4000-digit ints, nan/inf) as splitters and extras under ASCII and non-ASCII salts: a group must come back and v / str(v) must share it. Exploration only.",
        note="Lone surrogates and ints beyond CPython's str() digit limit are excluded (stated in evidence).",
        ref="4.15"),
    "C06": dict(
        technique="property-based testing / fuzzing: token-level and character-level mutation of grammatical texts (plus atheris coverage-guided raw-text fuzzing in the thorough tier) against an independent Earley recogniser of the documented grammar",
        text="Mutated texts the reference recogniser rejects must make ExperimentEvaluator raise and parse_source raise or return None. Exploration only.",
        note="Trusts the reference lexer + Earley recogniser transcribed from language/README.rst (self-tested on the 13 repository programs and a table of invalid texts); ambiguous readings are skipped and counted.",
        ref="4.6"),
    "C07": dict(
        technique="property-based testing: grammar-directed sentence generator over an adversarial identifier pool and large shapes; totality oracle (compiles; outcome is a group of the program or the unroutable error)",
        text="Every generated text is confirmed a sentence by the independent recogniser, then must compile and evaluate cleanly on type-compatible inputs. Known finding K1 (Python-reserved / helper-name identifiers) is excluded by construction and probed separately. Exploration only.",
        note="Trusts the reference recogniser and the typed generator's notion of type-compatible inputs.",
        ref="4.7"),
    "C08": dict(
        technique="property-based testing: metamorphic relation between trivia variants (whitespace / comments) of one token sequence; AST equality and result equality",
        text="Generated trivia sequences between every token pair; parse_source(variant) must equal parse_source(base) and evaluations must agree. Exploration only.",
        note="Trivia never goes inside the two-word tokens; comment bodies avoid */ and /* (documentation ambiguous on nesting).",
        ref="4.8"),
    "C01": dict(
        technique="property-based testing: generated operation histories (new / recompile / call over several evaluator instances) plus differential execution in child interpreters with varied PYTHONHASHSEED / locale / cwd; oracle = one result per (source, inputs), ever",
        text="Generated histories and cross-process batches; every observation of the same (source, inputs) pair anywhere must be identical in value and type. Exploration only; only CPython 3.12 on this platform is reachable.",
        note="No reference scheme is used (sameness only). Child interpreters are fresh /venv/bin/python processes importing the same working tree.",
        ref="4.1"),
    "C04": dict(
        technique="property-based testing with statistical oracles: chi-square goodness-of-fit and contingency tests (alpha 1e-9) over generated id families x offsets x salts x weight vectors",
        text="2e4 (quick) / 1e5 (thorough) distinct realistic ids per case through the compiled DSL; frequencies must fit the weights and assignments under two salts must be independent. Exploration only; deviations below ~1/sqrt(N) are invisible.",
        note="Trusts the pure-Python chi-square survival function (self-tested against frozen scipy values and closed forms).",
        ref="4.4"),
    "C05": dict(
        technique="property-based testing: literal-content generator placed in every literal position; reference interpreter with exact Python values, type-identity check, scheme-free salt metamorphics",
        text="Generated and catalogued literal contents as group definition, predicate operand (both sides), tuple member (plain / one-element / nested) and salt, evaluated on inputs equal to and minimally different from the literal. Exploration only.",
        note="Trusts the reference interpreter; literals overflowing a double or beyond CPython's int digit limit are outside the bound.",
        ref="4.5"),
    "C11": dict(
        technique="model-based property testing: generated operation sequences (new / recompile valid|same|invalid / call) over several evaluators against the model 'fresh evaluator of the last accepted text', invariant checked after every step",
        text="Histories up to 50 steps over 4 evaluators and 16 texts; invalid texts must raise every time and change nothing; every evaluator is compared with its model after every step. Exploration only.",
        note="All valid texts declare a splitter so results are deterministic; the invalid texts are confirmed invalid by the independent recogniser.",
        ref="4.11"),
    "C13": dict(
        technique="property-based testing: adversarial string / salt substitution; masked-constant Python-AST equality with the harmless twin and a planted sentinel call counter",
        text="Generated programs with adversarial literals in every string position; the generated code (4 variants) must have the same structure as the harmless twin's and a sentinel in builtins must never be called. Exploration only.",
        note="Both sides of the AST comparison come from the current generator; trusts ast.parse.",
        ref="4.13"),
    "C14": dict(
        technique="property-based differential testing: exec of generate_code() text (both layouts) vs ExperimentEvaluator on generated programs and inputs",
        text="The generated module text is executed stand-alone and its function compared with the evaluator on every input (value, type, exception class). Exploration only.",
        note="random is seeded identically on both sides for splitter-less programs.",
        ref="4.14"),
    "C17": dict(
        technique="schedule fuzzing: harness-owned deterministic line-level thread schedules (generated, replayable, shrinkable) plus exhaustive single-preemption sweeps; thorough tier adds pre-emptive stress at 1 microsecond switch interval",
        text="Operations x schedules are generated by Hypothesis and executed under a sys.settrace-enforced scheduler; results are compared with the sequential reference. Exploration only: line-granular switches; finer races only via the probabilistic pre-emptive tier.",
        note="Switches inside C extensions and between bytecodes of one line are not reachable by the owned scheduler (stated limit).",
        ref="4.17"),
}

NOT_YET = "check not built yet (work in progress; see DESIGN.md for the planned generator and oracle)"


def main():
    props = [json.loads(l)["id"] for l in open(os.path.join(HERE, "properties.jsonl"))]
    checks = []
    na = []
    for pid in props:
        c = CHECKS.get(pid)
        if not c:
            na.append({"property_id": pid, "reason": NOT_YET})
            continue
        checks.append({
            "property_id": pid,
            "quick_cmd": "./check %s --tier quick" % pid,
            "thorough_cmd": "./check %s --tier thorough" % pid,
            "evidence_file": "evidence/%s.json" % pid,
            "replay_cmd_template": "./check %s --replay {path}" % pid,
            "engine": "pyabverif",
            "level_claimed": {"category": "exploration", "text": c["text"], "design_ref": "DESIGN.md section " + c["ref"]},
            "level_note": c["note"],
            "technique": c["technique"],
        })
    m = {
        "version": 1,
        "setup_cmd": "/venv/bin/python -m pip install -q --no-index --find-links /opt/veriftools/wheels --target .deps --upgrade hypothesis atheris || true",
        "hooks": {
            "guard": "PYAB_VERIF",
            "enable": "no source hooks exist: checks import the working tree from /repo/src (PYAB_SRC overrides the path) in a fresh /venv/bin/python process",
            "baseline_off_cmd": "cd /repo && /venv/bin/python -m pytest -ra -q -p no:cacheprovider --timeout=900",
            "source_commits": [],
            "add_only": True,
        },
        "engines": [{
            "name": "pyabverif",
            "path": "pyabverif/",
            "serves_properties": [c["property_id"] for c in checks],
            "kind_free_text": "Hypothesis (stateful + composite strategies) and atheris drivers around pure judge(case) functions with independent oracles; ./check <ID> [--tier] [--replay]",
        }],
        "checks": checks,
        "not_applicable": na,
        "notes": "Technique family: property-based testing and fuzzing only. Exit 0 held / 1 VIOLATION / 2 harness error. known_findings.json lists genuine defects (known + fixed).",
    }
    with open(os.path.join(HERE, "MANIFEST.json"), "w") as f:
        json.dump(m, f, indent=1)
        f.write("\n")


if __name__ == "__main__":
    main()
