#!/usr/bin/env python3
"""Regenerates /verif/MANIFEST.json from the table below (run after adding a check)."""
import json
import os

HERE = os.path.dirname(os.path.dirname(os.path.abspath(__file__)))

CHECKS = {
    "C02": dict(
        technique="property-based testing (Hypothesis grammar-directed program generator + enumerated catalogue) against an independent reference interpreter",
        text="Generated-input search: typed DSL programs x boundary inputs are executed on the real evaluator and on a 60-line reference interpreter that shares no code with the repo; any differing outcome is a violation. Exploration only: no absence claim beyond the generated / enumerated cases.",
        note="Trusts the reference interpreter (self-tested against the suite's expectations), Python's own comparison semantics, and that generated inputs are type-compatible.",
        ref="4.2"),
    "C03": dict(
        technique="property-based testing: generated + enumerated weight vectors at boundary grid points against an exact rational partition model; hash position substituted (canary) and black-box located by bisection",
        text="Generated-input search over weight vectors x grid points; oracle is exact Fraction arithmetic over the 2^32 grid. Path B locates real ids' positions black-box through the DSL so no hash scheme is assumed. Exploration only.",
        note="Trusts Python Fractions and the stated 1e-12*total ambiguity zone (empty when the double arithmetic is provably exact).",
        ref="4.3"),
    "C12": dict(
        technique="property-based testing: differential against an independent re-implementation of the published MD5/UTF-8 scheme, plus RFC 1321 known-answer vectors",
        text="Every generated (program, inputs) assignment is recomputed from the property's description alone (salt + str(values) in alphabetical field order, MD5, first 32 bits, exact partition) and compared with the evaluator. Exploration only.",
        note="Trusts hashlib.md5 (checked against RFC 1321 vectors at start-up) and the partition model of C03.",
        ref="4.12"),
    "C16": dict(
        technique="property-based testing: algebraic laws (weights == cum_weights, unweighted == equal integer weights), identity/immutability checks, documented error classes, seeded chi-square for the random branch",
        text="Generated argument tuples, well-formed and malformed, checked against laws that need no reference implementation. Exploration only.",
        note="Trusts the docstring / random.choices contract for which errors are documented; chi-square at 1e-9 with seeded random.",
        ref="4.16"),
    "C18": dict(
        technique="property-based testing + dense grid enumeration against the textbook formulas and statistics.NormalDist quantile",
        text="Grid (n log-grid x p x confidence x method) and generated floats; oracles: transcription of Agresti-Coull / Wald with the module's own z, monotonicity along grid lines, symmetry and conservativeness of probit vs the exact normal quantile. Exploration only.",
        note="Trusts statistics.NormalDist.inv_cdf and the stated float tolerances (1e-12 relative; propagated argument rounding for symmetry).",
        ref="4.18"),
    "C09": dict(
        technique="property-based testing: metamorphic relations between pairs of calls / pairs of programs (equalities for irrelevant changes, inequalities for relevant ones)",
        text="Generated programs and inputs; each result is compared with its metamorphic twins (extra kwargs, renamed experiment, permuted splitters, permuted arguments, same-route condition changes, missing field, varied splitter values, varied salts). No reference hash is needed. Exploration only.",
        note="Trusts the reference interpreter for 'same route'; inequality relations are probabilistic with false-alarm probability < 1e-9 per case.",
        ref="4.9"),
    "C10": dict(
        technique="property-based testing: monotone-coupling and interval-intersection invariants over families of weight vectors evaluated on the same units",
        text="Generated chains of weight vectors ordered by prefix shares (exact integer construction), each evaluated as its own program and as a branch of a routed program; oracle: no unit moves to a later group, and all observed (vector, group) pairs of a unit admit one common position. Exploration only.",
        note="Trusts exact Fraction prefix shares with a 1e-12 widening; no hash scheme assumed.",
        ref="4.10"),
    "C15": dict(
        technique="property-based testing: generated field values of every listed type / salts of any characters; totality and str()-equivalence oracle",
        text="Generated str/int/float/bool/None values (all Unicode planes, NUL, 1e5-character strings, 4000-digit ints, nan/inf) as splitters and extras under ASCII and non-ASCII salts: a group must come back and v / str(v) must share it. Exploration only.",
        note="Lone surrogates and ints beyond CPython's str() digit limit are excluded (stated in evidence).",
        ref="4.15"),
    "C06": dict(
        technique="property-based testing / fuzzing: token-level and character-level mutation of grammatical texts (plus atheris coverage-guided raw-text fuzzing in the thorough tier) against an independent Earley recogniser of the documented grammar",
        text="Mutated texts the reference recogniser rejects must make ExperimentEvaluator raise and parse_source raise or return None. Exploration only.",
        note="Trusts the reference lexer + Earley recogniser transcribed from language/README.rst (self-tested on the 13 repository programs and a table of invalid texts); ambiguous readings are skipped and counted.",
        ref="4.6"),
    "C07": dict(
        technique="property-based testing: grammar-directed sentence generator over an adversarial identifier pool and large shapes; totality oracle (compiles; outcome is a group of the program or the unroutable error)",
        text="Every generated text is confirmed a sentence by the independent recogniser, then must compile and evaluate cleanly on type-compatible inputs. Known finding K1 (Python-reserved / helper-name identifiers) is excluded by construction and probed separately. Exploration only.",
        note="Trusts the reference recogniser and the typed generator's notion of type-compatible inputs.",
        ref="4.7"),
    "C08": dict(
        technique="property-based testing: metamorphic relation between trivia variants (whitespace / comments) of one token sequence; AST equality and result equality",
        text="Generated trivia sequences between every token pair; parse_source(variant) must equal parse_source(base) and evaluations must agree. Exploration only.",
        note="Trivia never goes inside the two-word tokens; comment bodies avoid */ and /* (documentation ambiguous on nesting).",
        ref="4.8"),
}

NOT_YET = "check not built yet (work in progress; see DESIGN.md for the planned generator and oracle)"


def main():
    props = [json.loads(l)["id"] for l in open(os.path.join(HERE, "properties.jsonl"))]
    checks = []
    na = []
    for pid in props:
        c = CHECKS.get(pid)
        if not c:
            na.append({"property_id": pid, "reason": NOT_YET})
            continue
        checks.append({
            "property_id": pid,
            "quick_cmd": "./check %s --tier quick" % pid,
            "thorough_cmd": "./check %s --tier thorough" % pid,
            "evidence_file": "evidence/%s.json" % pid,
            "replay_cmd_template": "./check %s --replay {path}" % pid,
            "engine": "pyabverif",
            "level_claimed": {"category": "exploration", "text": c["text"], "design_ref": "DESIGN.md section " + c["ref"]},
            "level_note": c["note"],
            "technique": c["technique"],
        })
    m = {
        "version": 1,
        "setup_cmd": "/venv/bin/python -m pip install -q --no-index --find-links /opt/veriftools/wheels --target .deps --upgrade hypothesis atheris || true",
        "hooks": {
            "guard": "PYAB_VERIF",
            "enable": "no source hooks exist: checks import the working tree from /repo/src (PYAB_SRC overrides the path) in a fresh /venv/bin/python process",
            "baseline_off_cmd": "cd /repo && /venv/bin/python -m pytest -ra -q -p no:cacheprovider --timeout=900",
            "source_commits": [],
            "add_only": True,
        },
        "engines": [{
            "name": "pyabverif",
            "path": "pyabverif/",
            "serves_properties": [c["property_id"] for c in checks],
            "kind_free_text": "Hypothesis (stateful + composite strategies) and atheris drivers around pure judge(case) functions with independent oracles; ./check <ID> [--tier] [--replay]",
        }],
        "checks": checks,
        "not_applicable": na,
        "notes": "Technique family: property-based testing and fuzzing only. Exit 0 held / 1 VIOLATION / 2 harness error. known_findings.json lists genuine defects (known + fixed).",
    }
    with open(os.path.join(HERE, "MANIFEST.json"), "w") as f:
        json.dump(m, f, indent=1)
        f.write("\n")


if __name__ == "__main__":
    main()
