"""Child interpreter for C01: evaluates a batch of (source, inputs) pairs and prints an ASCII JSON transcript.
usage: child_eval.py <batch.json>   (PYTHONPATH must contain the code under test and /verif)"""
import json
import locale
import os
import sys


def _cwd():
    try:
        return os.getcwd()
    except OSError:
        return "<deleted>"


def main():
    if os.environ.get("PYAB_CHILD_RMCWD"):
        os.rmdir(os.getcwd())  # from here on this process has no working directory
    try:
        locale.setlocale(locale.LC_ALL, "")
    except locale.Error:
        pass
    spy = None
    if os.environ.get("PYAB_ENVSPY"):
        from pyabverif import envspy as spy

        spy.install()
    from pyabverif import model as M
    from pyabverif import sut

    with open(sys.argv[1], encoding="ascii") as f:
        batch = json.load(f)
    real_out = sys.stdout
    sys.stdout = open(os.devnull, "w")
    out = [None] * len(batch)
    evs = {}
    order = list(range(len(batch)))
    how = os.environ.get("PYAB_CHILD_ORDER", "")
    if how == "reverse":
        order.reverse()
    elif how == "interleave":
        order = order[1::2] + order[0::2]
    # compile and decode everything first, then evaluate back to back in the requested order (no allocations of the harness in
    # between two calls: whatever the library keys on object addresses gets its chance to collide), encode afterwards
    prepared = []
    for item in batch:
        text = item["text"]
        if text not in evs:
            evs[text] = sut.compile_text(text)
        prepared.append((evs[text], M.dec_inputs(item["inputs"]), sut.call_positional if item.get("positional") else sut.call))
    raw = [None] * len(batch)
    for pos in order:
        res, env, fn = prepared[pos]
        raw[pos] = fn(res[1], env) if res[0] == "ok" else None
    for pos, (res, env, fn) in enumerate(prepared):
        if res[0] != "ok":
            out[pos] = ["compile-error", res[1]]
            continue
        o = raw[pos]
        if o[0] == "group":
            out[pos] = ["group", M.enc(o[1])]
        else:
            out[pos] = list(o[:2])
    real_out.write(json.dumps({"hashseed": os.environ.get("PYTHONHASHSEED"), "locale": locale.setlocale(locale.LC_ALL),
                               "cwd": _cwd(), "results": out, "env_keys": spy.keys() if spy else []}, ensure_ascii=True))
    real_out.flush()


if __name__ == "__main__":
    main()
