"""Child interpreter for C01: evaluates a batch of (source, inputs) pairs and prints an ASCII JSON transcript.
usage: child_eval.py <batch.json>   (PYTHONPATH must contain the code under test and /verif)"""
import json
import locale
import os
import sys


def main():
    try:
        locale.setlocale(locale.LC_ALL, "")
    except locale.Error:
        pass
    from pyabverif import model as M
    from pyabverif import sut

    with open(sys.argv[1], encoding="ascii") as f:
        batch = json.load(f)
    real_out = sys.stdout
    sys.stdout = open(os.devnull, "w")
    out = []
    evs = {}
    for item in batch:
        text = item["text"]
        if text not in evs:
            evs[text] = sut.compile_text(text)
        res = evs[text]
        if res[0] != "ok":
            out.append(["compile-error", res[1]])
            continue
        o = sut.call(res[1], M.dec_inputs(item["inputs"]))
        if o[0] == "group":
            out.append(["group", M.enc(o[1])])
        else:
            out.append(list(o[:2]))
    real_out.write(json.dumps({"hashseed": os.environ.get("PYTHONHASHSEED"), "locale": locale.setlocale(locale.LC_ALL),
                               "cwd": os.getcwd(), "results": out}, ensure_ascii=True))
    real_out.flush()


if __name__ == "__main__":
    main()
