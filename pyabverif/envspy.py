"""Which environment variables does the library consult?  install() (before the library is imported) wraps os.environ so that
every key looked up from a frame of pyab_experiment (or of code it generated) is recorded; keys() returns them.  A check then
re-runs its cases in child interpreters with each such variable set: the environment of the host process is no input of an
experiment."""
import os
import sys

_seen = set()
VALUES = ["1", "true", "0", "debug", "sha256", "sha1", "utf-16", "x"]


def install():
    base = type(os.environ)
    if getattr(base, "_pyab_spy", False):
        return

    class Spy(base):
        _pyab_spy = True

        def __getitem__(self, key):
            f = sys._getframe(1)
            for _ in range(6):
                if f is None:
                    break
                fn = f.f_code.co_filename
                if "pyab_experiment" in fn or fn == "<string>":
                    _seen.add(key if isinstance(key, str) else repr(key))
                    break
                f = f.f_back
            return base.__getitem__(self, key)

    os.environ.__class__ = Spy


def keys():
    return sorted(_seen)
