"""Neighbour texts: pairs of DIFFERENT programs that any normalising shortcut (a checksum / cache keyed on collapsed
whitespace, stripped comments, token values, ==-equality, Unicode normal forms, rendered text ...) is tempted to confuse.
Each generator maps a model program to a list of (what, program_a, program_b) with a != b as programs."""
import copy

from . import model as M


def _walk_lits(node, out):
    if isinstance(node, dict):
        if node.get("k") == "lit":
            out.append(node)
        for v in node.values():
            _walk_lits(v, out)
    elif isinstance(node, list):
        for v in node:
            _walk_lits(v, out)


def _str_lits(prog):
    out = []
    _walk_lits(prog["body"], out)
    return [l for l in out if l["t"] == "str"]


def _num_lits(prog):
    out = []
    _walk_lits(prog["body"], out)
    return [l for l in out if l["t"] != "str"]


def _q(s):
    return "'" if '"' in s else '"'


def _set_str(lit, s):
    lit["v"] = s
    lit["q"] = _q(s)


def _crc_twins(base):
    """two different equal-length strings with the same CRC-32 (and so the same CRC-32 wherever they replace each other in a
    text): CRC is affine over GF(2), so among >32 single-bit flips of `base` some subset cancels (Gaussian elimination)"""
    import zlib

    raw = base.encode("ascii")
    c0 = zlib.crc32(raw)
    vecs = []
    for i in range(len(raw)):
        f = bytearray(raw)
        f[i] ^= 1
        vecs.append((zlib.crc32(bytes(f)) ^ c0, 1 << i))
    basis = {}  # leading bit -> (vector, combination mask)
    for v, m in vecs:
        while v:
            h = v.bit_length() - 1
            if h not in basis:
                basis[h] = (v, m)
                break
            bv, bm = basis[h]
            v ^= bv
            m ^= bm
        else:
            out = bytearray(raw)
            for i in range(len(raw)):
                if m >> i & 1:
                    out[i] ^= 1
            twin = out.decode("ascii")
            assert twin != base and zlib.crc32(out) == c0
            return base, twin
    raise AssertionError("no dependency found")


CRC_A, CRC_B = _crc_twins("bcfgjknorsvwzbcfgjknorsvwzbcfgjknorsvwzbcfg")

STRING_EDITS = [
    # texts that weak change-detection fingerprints cannot tell apart (same length; same byte sum / Adler-32 / CRC-32)
    ("Adler-32 twins (+1 -2 +1 on adjacent bytes)", lambda s: (s + "121", s + "202")),
    ("Adler-32 twins (+1 -1 -1 +1)", lambda s: (s + "a0110", s + "a1001")),
    ("transposed characters (same length and byte sum)", lambda s: (s + "ab", s + "ba")),
    ("CRC-32 twins", lambda s: (s + CRC_A, s + CRC_B)),
    ("blank doubled inside a string", lambda s: (s + " x", s + "  x")),
    ("blank vs TAB inside a string", lambda s: (s + " x", s + "\tx")),
    ("trailing blank inside a string", lambda s: (s + "x", s + "x ")),
    ("leading blank inside a string", lambda s: ("x" + s, " x" + s)),
    ("text after // inside a string", lambda s: (s + "//a", s + "//b")),
    ("url-like strings that differ after //", lambda s: ("https://" + s + "/v1", "https://" + s + "/v2")),
    ("text inside /* */ inside a string", lambda s: (s + "/* 1 */", s + "/* 2 */")),
    ("letter case", lambda s: (s + "ab", s + "aB")),
    ("composed vs decomposed accent", lambda s: (s + "é", s + "é")),
    ("compatibility ligature", lambda s: (s + "ﬁ", s + "fi")),
    ("fullwidth vs ASCII letter", lambda s: (s + "Ａ", s + "A")),
    ("ohm sign vs omega", lambda s: (s + "Ω", s + "Ω")),
    ("quote at the edge of the content", lambda s: (s + "x", s + "x'")),
    ("NBSP vs blank inside a string", lambda s: (s + " x", s + " x")),
    ("digit string vs padded digit string", lambda s: ("12", "012")),
]


def fixed_programs():
    """programs (with inputs) that contain every kind of literal the neighbour generators work on: walked exhaustively by the
    fixed parts of the checks that push neighbours through recompile() (random picks alone made detection seed-dependent)"""
    I, L, S = M.ident, M.lit_int, M.lit_str
    p1 = M.program("exp", M.if_([(M.cmp_(I("a"), "==", L("2134")), M.ret([(S("aa"), "3"), (S("bb"), "1"), (S("cc"), "1")])),
                                 (M.cmp_(I("b"), "in", M.tup([L("10001"), L("10002")])), M.ret([(L("1"), "1"), (M.lit_float("2.0"), "1")])),
                                 (M.cmp_(I("c"), "!=", I("viewer")), M.ret([(S("x y"), "1"), (S("z"), "1")]))],
                                M.ret([(S("e"), "1"), (S("f"), "1")])), salt="s 1", splitters=["uid"])
    envs1 = []
    for j, (a, b, c, v) in enumerate([(2134, 0, "k", "k"), ("2134", 0, "k", "k"), (2134.0, 0, "k", "k"), (0, 10001, "k", "k"), (0, "10001", "k", "k"),
                                      (0, 10002.0, "k", "k"), (0, 0, "viewer", "k"), (0, 0, "k", "viewer"), (0, 0, "viewer", "viewer"), (0, 0, "k", "k"),
                                      (2134, 10001, "a", "b"), (1, 2, "c", "c")]):
        envs1.append({"a": a, "b": b, "c": c, "viewer": v, "uid": "u%d" % j})
    p2 = M.program("exp", M.ret([(S("control"), "1"), (S("treatment"), "1"), (S("holdout"), "2")]), salt="salt", splitters=["uid", "plan"])
    envs2 = [{"uid": "u%d" % j, "plan": ["pro", "free", 1, None][j % 4]} for j in range(12)]
    p3 = M.program("exp", M.if_([(M.cmp_(I("country"), "==", S("US")), M.ret([(L("0"), "1"), (L("1"), "1")]))],
                                M.ret([(M.lit_float("0.5"), "1"), (M.lit_float("1.0"), "1")])), salt=None, splitters=["uid"])
    envs3 = [{"uid": "u%d" % j, "country": ["US", "us", "U S", "FR"][j % 4]} for j in range(12)]
    return [(p1, envs1), (p2, envs2), (p3, envs3)]


def neighbours(prog, only=None, limit=3):
    res = [r for r in _neighbours(prog, limit) if M.render(r[1]) != M.render(r[2])]
    if only:
        res = [r for r in res if any(o in r[0] for o in only)]
    return res


def _neighbours(prog, limit=3):
    res = []
    # ---- string literals (labels, operands) and the salt
    for i, lit in enumerate(_str_lits(prog)[:limit]):
        for what, f in STRING_EDITS:
            a, b = copy.deepcopy(prog), copy.deepcopy(prog)
            sa, sb = f(lit["v"])
            if "\n" in sa + sb:
                continue
            for p_, s_ in ((a, sa), (b, sb)):
                l = _str_lits(p_)[i]
                if '"' in s_ and "'" in s_:
                    break
                _set_str(l, s_)
            else:
                res.append((what + " (literal #%d)" % i, a, b))
    if prog["salt"] is not None or prog["splitters"]:
        base = prog["salt"]["v"] if prog["salt"] is not None else "s"
        for what, f in STRING_EDITS:
            sa, sb = f(base)
            if ('"' in sa and "'" in sa) or ('"' in sb and "'" in sb) or "\n" in sa + sb:
                continue
            a, b = copy.deepcopy(prog), copy.deepcopy(prog)
            a["salt"] = {"v": sa, "q": _q(sa)}
            b["salt"] = {"v": sb, "q": _q(sb)}
            res.append((what + " (salt)", a, b))
    # ---- numeric literals that are == but differ in type / sign of zero / spelling
    for i, lit in enumerate(_num_lits(prog)[:limit]):
        a, b = copy.deepcopy(prog), copy.deepcopy(prog)
        lb = _num_lits(b)[i]
        if lit["t"] == "int":
            lb["t"], lb["src"] = "float", lit["src"] + ".0"
            res.append(("int literal vs the ==-equal float literal (#%d)" % i, a, b))
        else:
            if float(lit["src"]) == int(float(lit["src"])):
                lb["t"], lb["src"] = "int", str(int(float(lit["src"])))
                res.append(("float literal vs the ==-equal int literal (#%d)" % i, a, b))
    # ---- a numeric literal vs the string literal with the same spelling (2134 vs "2134")
    for i, lit in enumerate(_num_lits(prog)[:limit]):
        if lit["neg"]:
            continue
        a, b = copy.deepcopy(prog), copy.deepcopy(prog)
        lb = _num_lits(b)[i]
        src = lit["src"]
        lb.clear()
        lb.update(M.lit_str(src))
        res.append(("numeric literal vs the string literal of the same spelling (#%d)" % i, a, b))
    # ---- a group label that spells the tokens of two groups:  "A" weighted 1 , "B" weighted 1   vs   "A weighted 1 , B" weighted 1
    for ri, r in enumerate(M.returns(prog["body"])):
        g = r["groups"]
        for j in range(len(g) - 1):
            if g[j]["lit"]["t"] == "str" and g[j + 1]["lit"]["t"] == "str":
                merged = "%s weighted %s , %s" % (g[j]["lit"]["v"], g[j]["w"], g[j + 1]["lit"]["v"])
                if '"' in merged and "'" in merged:
                    continue
                b = copy.deepcopy(prog)
                rb = M.returns(b["body"])[ri]
                rb["groups"][j:j + 2] = [{"lit": M.lit_str(merged, _q(merged)), "w": g[j + 1]["w"]}]
                if sum(float(x["w"]) for x in rb["groups"]) <= 0:
                    continue  # would be an all-zero statement, which is refused by design
                res.append(("one label spelling the tokens of two groups (return #%d)" % ri, copy.deepcopy(prog), b))
                break
    # ---- an identifier operand vs the string literal with the same text
    for pi, p in enumerate(M.preds(prog["body"])):
        for ci, c in enumerate(M.cmps(p)):
            for side in ("l", "r"):
                if c[side]["k"] == "id" and c["op"] in ("==", "!="):
                    b = copy.deepcopy(prog)
                    cb = M.cmps(M.preds(b["body"])[pi])[ci]
                    cb[side] = M.lit_str(c[side]["name"])
                    res.append(("identifier operand vs the string literal of the same text", copy.deepcopy(prog), b))
                    break
            else:
                continue
            break
        else:
            continue
        break
    # ---- weights: 1 vs 1.0 is the same experiment, 1 vs 10 is not (a trailing character after the last differing token)
    rets = M.returns(prog["body"])
    if rets and len(rets[0]["groups"]) >= 2:
        b = copy.deepcopy(prog)
        gb = M.returns(b["body"])[0]["groups"]
        gb[0]["w"] = gb[0]["w"] + "0" if "." not in gb[0]["w"] else gb[0]["w"].split(".")[0] + "1." + gb[0]["w"].split(".")[1]
        res.append(("first weight with one more digit", copy.deepcopy(prog), b))
        if len(rets[0]["groups"]) >= 3:
            # 1 , 2 , 1  ->  2 , 0 , 2  (equally spaced bytes changed by +1 -2 +1: the same Adler-32, length and byte sum)
            a, b = copy.deepcopy(prog), copy.deepcopy(prog)
            for p_, ws in ((a, ("1", "2", "1")), (b, ("2", "0", "2"))):
                g_ = M.returns(p_["body"])[0]["groups"]
                labs = [x["lit"] for x in g_[:3]]
                if len({len(" ".join(t for _, t in M.lit_tokens(l))) for l in labs[1:]}) != 1:
                    break
                for x, w in zip(g_[:3], ws):
                    x["w"] = w
                for x in g_[3:]:
                    x["w"] = "0"
            else:
                res.append(("Adler-32 twin weights 1,2,1 vs 2,0,2", a, b))
        a, b = copy.deepcopy(prog), copy.deepcopy(prog)
        M.returns(a["body"])[0]["groups"][0]["w"] = "121"
        M.returns(b["body"])[0]["groups"][0]["w"] = "202"
        res.append(("Adler-32 twin weight 121 vs 202", a, b))
    return res


_DIGEST_TWINS = []


def digest_prefix_twins():
    """pairs of different salts whose digests agree in 32 bits (first / last 8 hex digits of MD5, first 8 of SHA-1 / SHA-256),
    found by a deterministic birthday search: whatever short token a library derives from a salt, two salts are two salts"""
    import hashlib

    if not _DIGEST_TWINS:
        for name, f in (("md5[:8]", lambda b: hashlib.md5(b).hexdigest()[:8]), ("md5[-8:]", lambda b: hashlib.md5(b).hexdigest()[-8:]),
                        ("sha1[:8]", lambda b: hashlib.sha1(b).hexdigest()[:8]), ("sha256[:8]", lambda b: hashlib.sha256(b).hexdigest()[:8])):
            seen = {}
            i = 0
            while True:
                s = "checkout-button-v%d" % i
                k = f(s.encode())
                if k in seen:
                    _DIGEST_TWINS.append((seen[k], s))
                    break
                seen[k] = s
                i += 1
    return list(_DIGEST_TWINS)
