"""Entry point: ./check <ID> [--tier quick|thorough] [--replay PATH] [--shard i --nshards n --out f]

Exit codes: 0 = property held on everything explored (KNOWN-FINDING lines allowed)
            1 = VIOLATION property=<id> replay=<path>
            2 = harness error (never a verdict)
"""
import os
import sys

HERE = os.path.dirname(os.path.abspath(__file__))
VERIF = os.path.dirname(HERE)


def _bootstrap():
    deps = os.path.join(VERIF, ".deps")
    src = os.environ.get("PYAB_SRC", "/repo/src")
    # the code under test always comes from the working tree named by PYAB_SRC
    sys.path[:] = [p for p in sys.path if os.path.abspath(p or ".") != os.path.abspath(src)]
    sys.path.insert(0, src)
    sys.path.insert(0, VERIF)
    # third-party harness deps: /venv already carries hypothesis; atheris lives in .deps
    if os.path.isdir(deps):
        sys.path.append(deps)
    try:
        import hypothesis  # noqa: F401
    except ImportError:
        import subprocess

        subprocess.run(
            [sys.executable, "-m", "pip", "install", "-q", "--no-index", "--find-links",
             "/opt/veriftools/wheels", "--target", deps, "hypothesis"],
            check=False, stdout=subprocess.DEVNULL, stderr=subprocess.DEVNULL,
        )
        if deps not in sys.path:
            sys.path.append(deps)


_bootstrap()

from pyabverif import runner  # noqa: E402

if __name__ == "__main__":
    sys.exit(runner.main(sys.argv[1:]))
