"""C17 cold start: a FRESH interpreter in which the very first compilations overlap (no sequential warm-up of any kind).
usage: cold_start.py '<json {"srcs":[..], "schedule":[[tid,runlen],..]}>'   -> prints {"viol": [...], "lines": [...]}"""
import json
import os
import sys


def main():
    spec = json.loads(sys.argv[1])
    real_out = sys.stdout
    sys.stdout = open(os.devnull, "w")
    sys.stderr = open(os.devnull, "w")
    from pyabverif import sched, sut
    from pyabverif.props import c17

    E = sut.evaluator_mod().ExperimentEvaluator
    fns = [(lambda i=i: E(c17.SOURCES[i])) for i in spec["srcs"]]
    s = sched.Scheduler(fns, [tuple(x) for x in spec["schedule"]], cycle=False, timeout=60.0)
    viol = []
    try:
        results = s.run()
    except sched.Stuck as e:
        real_out.write(json.dumps({"viol": [], "stuck": str(e), "lines": s.lines}))
        return
    for t, (i, r) in enumerate(zip(spec["srcs"], results)):
        if r is None or r[0] == "exc":
            viol.append("cold start: thread %d constructing source %d raised %s" % (t, i, r[1:] if r else None))
            continue
        got = [sut.call(r[1], p) for p in c17.PROBES]
        want = c17._seq(i)  # built alone, afterwards
        if got != want:
            viol.append("cold start: evaluator constructed in thread %d from source %d differs from the one built alone afterwards" % (t, i))
    real_out.write(json.dumps({"viol": viol, "lines": s.lines, "overlap": s.overlap_handoffs}))


if __name__ == "__main__":
    main()
