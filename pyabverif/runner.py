"""Runner: seeds, sharding, evidence, exit codes, KNOWN-FINDING handling.

Every property module in pyabverif.props exposes

    ID, RULE, ASSUMPTIONS
    run(ctx, rec)         explore; record cases / violations on `rec`
    judge_case(record)    plain replay of one saved case -> list of messages

Verdict lines go to the real stdout (fd saved before anything from the code
under test can print); everything the code under test prints is discarded.
"""
import argparse
import collections
import hashlib
import importlib
import io
import json
import os
import subprocess
import sys
import time
import traceback

HERE = os.path.dirname(os.path.abspath(__file__))
VERIF = os.path.dirname(HERE)

PROPS = ["C%02d" % i for i in range(1, 19)]


class HarnessError(Exception):
    """Something is wrong with the harness / environment: exit 2, never a verdict."""


class _Sink(io.TextIOBase):
    def write(self, s):
        return len(s)

    def flush(self):
        pass


_REAL_OUT = None
_REAL_ERR = None


def _printable(line):
    # messages may quote lone surrogates / characters the terminal's encoding lacks: never fail while reporting
    enc = getattr(_REAL_OUT, "encoding", None) or "utf-8"
    return line.encode(enc, "backslashreplace").decode(enc, "replace")


def out(line):
    _REAL_OUT.write(_printable(line) + "\n")
    _REAL_OUT.flush()


def err(line):
    _REAL_ERR.write(_printable(line) + "\n")
    _REAL_ERR.flush()


def canon(obj):
    return json.dumps(obj, sort_keys=True, ensure_ascii=True, separators=(",", ":"), default=repr)


def digest(obj):
    return hashlib.sha1(canon(obj).encode()).hexdigest()[:16]


def _shorten(obj, limit=400):
    """Make a sample readable: long strings / lists are truncated (marked)."""
    if isinstance(obj, str):
        return obj if len(obj) <= limit else obj[:limit] + "...<%d chars>" % len(obj)
    if isinstance(obj, dict):
        return {k: _shorten(v, limit) for k, v in list(obj.items())[:40]}
    if isinstance(obj, (list, tuple)):
        lst = [_shorten(v, limit) for v in obj[:24]]
        if len(obj) > 24:
            lst.append("...<%d items>" % len(obj))
        return lst
    return obj


class Ctx:
    def __init__(self, pid, tier, seed, shard=0, nshards=1):
        self.pid = pid
        self.tier = tier
        self.seed = seed
        self.shard = shard
        self.nshards = nshards

    @property
    def quick(self):
        return self.tier == "quick"

    def n(self, quick, thorough):
        """Case budget for this tier (per shard)."""
        return quick if self.quick else thorough

    def derived_seed(self, name=""):
        h = hashlib.sha256(("%s|%d|%d|%s" % (self.pid, self.seed, self.shard, name)).encode()).digest()
        return int.from_bytes(h[:8], "big")


class Recorder:
    def __init__(self, pid):
        self.pid = pid
        self.evaluations = 0
        self.nontrivial = set()
        self.samples = []
        self.counters = collections.Counter()
        self.violations = []  # (part, case, messages)
        self.known = {}  # finding id -> text
        self.notes = []
        self.parts = collections.OrderedDict()
        self._sample_classes = set()

    def case(self, case, nontrivial, key=None, tags=(), sample=None):
        self.evaluations += 1
        for t in tags:
            self.counters[t] += 1
        if nontrivial:
            d = digest(case if key is None else key)
            new = d not in self.nontrivial
            self.nontrivial.add(d)
            # keep a few samples, preferring distinct tag classes
            cls = tuple(sorted(tags))[:3]
            if new and len(self.samples) < 6 and (cls not in self._sample_classes or len(self.samples) < 2):
                self._sample_classes.add(cls)
                self.samples.append(_shorten(case if sample is None else sample))

    def count(self, name, n=1):
        self.counters[name] += n

    def violation(self, part, case, messages):
        self.violations.append((part, case, list(messages)))

    def known_finding(self, fid, text):
        self.known[fid] = text

    def note(self, text):
        self.notes.append(text)

    def dump(self):
        return {
            "evaluations": self.evaluations,
            "nontrivial": sorted(self.nontrivial),
            "samples": self.samples,
            "counters": dict(self.counters),
            "violations": [[p, c, m] for p, c, m in self.violations],
            "known": self.known,
            "notes": self.notes,
        }


def load_known_findings():
    path = os.path.join(VERIF, "known_findings.json")
    if not os.path.exists(path):
        return {"known": [], "fixed": []}
    with open(path) as f:
        return json.load(f)


def known_for(pid):
    return [k for k in load_known_findings().get("known", []) if k.get("property") == pid]


# ---------------------------------------------------------------------------
# Hypothesis driver
# ---------------------------------------------------------------------------
def hyp_run(ctx, rec, part, strategy, judge, max_examples, *, shrink=True, known_filter=None,
            stateful=None):
    """Draw cases from `strategy`, call judge(case) -> dict(viol=[...], nontrivial=bool,
    tags=[...], key=..., sample=...).  The first (shrunk) failing case becomes a violation
    unless `known_filter(case, viol)` names a listed known finding."""
    import hypothesis
    from hypothesis import HealthCheck, Phase, given, settings
    from hypothesis import seed as hseed

    state = {"fail": None}

    class Fail(Exception):
        pass

    phases = [Phase.explicit, Phase.generate] + ([Phase.shrink] if shrink else [])
    st = settings(
        max_examples=max_examples,
        database=None,
        deadline=None,
        derandomize=False,
        report_multiple_bugs=False,
        phases=phases,
        suppress_health_check=[HealthCheck.too_slow, HealthCheck.data_too_large,
                               HealthCheck.filter_too_much, HealthCheck.large_base_example],
        verbosity=hypothesis.Verbosity.quiet,
    )

    @hseed(ctx.derived_seed(part))
    @st
    @given(strategy)
    def test(case):
        v = judge(case)
        viol = v.get("viol") or []
        if viol and known_filter is not None:
            fid = known_filter(case, viol)
            if fid:
                rec.count("known_finding_hits:" + fid)
                viol = []
        rec.case(case, bool(v.get("nontrivial")), key=v.get("key"), tags=v.get("tags", ()),
                 sample=v.get("sample"))
        if v.get("skipped"):
            rec.count("skipped:" + v["skipped"])
        if viol:
            state["fail"] = (case, viol)
            raise Fail(viol[0])

    t0 = time.time()
    try:
        test()
    except Fail:
        case, viol = state["fail"]
        rec.violation(part, case, viol)
    except hypothesis.errors.Flaky as e:
        if state["fail"] is not None:
            case, viol = state["fail"]
            rec.violation(part, case, viol + ["(flaky under replay: %s)" % type(e).__name__])
        else:
            raise HarnessError("hypothesis Flaky in %s: %s" % (part, e))
    except (hypothesis.errors.FailedHealthCheck, hypothesis.errors.Unsatisfiable) as e:
        raise HarnessError("generator problem in %s: %r" % (part, e))
    rec.parts[part] = {"max_examples": max_examples, "wall_s": round(time.time() - t0, 2)}


def direct_run(ctx, rec, part, cases, judge, known_filter=None, stop_at_first=True):
    """Enumerated (non-random) cases through the same judge protocol."""
    t0 = time.time()
    n = 0
    for case in cases:
        n += 1
        v = judge(case)
        viol = v.get("viol") or []
        if viol and known_filter is not None:
            fid = known_filter(case, viol)
            if fid:
                rec.count("known_finding_hits:" + fid)
                viol = []
        rec.case(case, bool(v.get("nontrivial")), key=v.get("key"), tags=v.get("tags", ()),
                 sample=v.get("sample"))
        if v.get("skipped"):
            rec.count("skipped:" + v["skipped"])
        if viol:
            rec.violation(part, case, viol)
            if stop_at_first:
                break
    rec.parts[part] = {"enumerated": n, "wall_s": round(time.time() - t0, 2)}


def child_judge(pid, cases, py_flags=(), env_extra=None):
    """judge `cases` of property `pid` in a fresh child interpreter started with `py_flags` / extra environment;
    -> list of message lists (one per case)"""
    import shutil
    import tempfile

    tmp = tempfile.mkdtemp(prefix="pyab_child_")
    try:
        path = os.path.join(tmp, "cases.json")
        with open(path, "w", encoding="ascii") as f:
            json.dump(cases, f, ensure_ascii=True, default=repr)
        env = dict(os.environ)
        env["PYTHONPATH"] = os.pathsep.join([os.environ.get("PYAB_SRC", "/repo/src"), VERIF])
        env["PYTHONDONTWRITEBYTECODE"] = "1"
        env.update(env_extra or {})
        p = subprocess.run([sys.executable, "-B", *py_flags, os.path.join(HERE, "child_judge.py"), pid, path], env=env,
                           stdout=subprocess.PIPE, stderr=subprocess.PIPE, text=True)
        if p.returncode != 0:
            raise HarnessError("child interpreter %r failed: %s" % (py_flags, p.stderr[-600:]))
        return json.loads(p.stdout)
    finally:
        shutil.rmtree(tmp, ignore_errors=True)


# ---------------------------------------------------------------------------
def _load(pid):
    return importlib.import_module("pyabverif.props." + pid.lower())


def _corpus_cases(pid):
    d = os.path.join(VERIF, "corpus", pid)
    if not os.path.isdir(d):
        return []
    res = []
    for fn in sorted(os.listdir(d)):
        if fn.endswith(".json"):
            with open(os.path.join(d, fn)) as f:
                res.append((fn, json.load(f)))
    return res


def _run_inproc(pid, ctx):
    mod = _load(pid)
    rec = Recorder(pid)
    if hasattr(mod, "selftest"):
        try:
            mod.selftest()
        except Exception as e:  # oracle self-test failure is a harness error
            raise HarnessError("oracle self-test failed: %r\n%s" % (e, traceback.format_exc()))
    # committed regression cases first (seconds-long replay tier); shard 0 only
    if ctx.shard == 0:
        for fn, record in _corpus_cases(pid):
            msgs = mod.judge_case(record)
            rec.count("corpus_replayed")
            if msgs:
                kf = getattr(mod, "known_filter", None)
                fid = kf(record.get("case"), msgs) if kf else None
                if not fid:
                    rec.violation(record.get("part", "corpus:" + fn), record.get("case"), msgs)
    if not rec.violations:
        mod.run(ctx, rec)
    return rec.dump()


def _write_replay(pid, part, case, messages):
    d = os.path.join(VERIF, "replays", pid)
    os.makedirs(d, exist_ok=True)
    record = {"property": pid, "part": part, "case": case, "messages": messages}
    path = os.path.join(d, digest(record) + ".json")
    with open(path, "w") as f:
        json.dump(record, f, indent=1, sort_keys=True, default=repr)
    return path


def _merge(dumps):
    m = {"evaluations": 0, "nontrivial": set(), "samples": [], "counters": collections.Counter(),
         "violations": [], "known": {}, "notes": []}
    for d in dumps:
        m["evaluations"] += d["evaluations"]
        m["nontrivial"].update(d["nontrivial"])
        for s in d["samples"]:
            if len(m["samples"]) < 8:
                m["samples"].append(s)
        m["counters"].update(d["counters"])
        m["violations"].extend(d["violations"])
        m["known"].update(d["known"])
        for n in d["notes"]:
            if n not in m["notes"]:
                m["notes"].append(n)
    return m


def _run_sharded(pid, tier, seed, nshards):
    scratch = os.path.join(VERIF, "scratch", "%s-%d" % (pid, os.getpid()))
    os.makedirs(scratch, exist_ok=True)
    procs = []
    for i in range(nshards):
        outp = os.path.join(scratch, "shard%d.json" % i)
        cmd = [sys.executable, "-B", os.path.join(HERE, "main.py"), pid, "--tier", tier,
               "--shard", str(i), "--nshards", str(nshards), "--out", outp]
        env = dict(os.environ, VERIF_SEED=str(seed))
        procs.append((i, outp, subprocess.Popen(cmd, env=env, stdout=subprocess.PIPE,
                                                stderr=subprocess.PIPE, text=True)))
    dumps = []
    problems = []
    for i, outp, p in procs:
        so, se = p.communicate()
        if p.returncode != 0 or not os.path.exists(outp):
            problems.append("shard %d exit %s: %s" % (i, p.returncode, (se or so)[-2000:]))
            continue
        with open(outp) as f:
            dumps.append(json.load(f))
    import shutil

    shutil.rmtree(scratch, ignore_errors=True)
    try:
        os.rmdir(os.path.join(VERIF, "scratch"))
    except OSError:
        pass
    if problems:
        raise HarnessError("; ".join(problems))
    return _merge(dumps)


def _evidence(pid, tier, seed, mod, m, wall, nviol):
    if os.environ.get("PYAB_NO_EVIDENCE"):  # set only by tools/mutants.py (runs against scratch copies)
        return
    cov = {
        "evaluations": int(m["evaluations"]),
        "distinct_nontrivial": len(m["nontrivial"]),
        "rule": mod.RULE,
        "samples": m["samples"] or ["<no non-trivial case was generated>"],
        "classes": dict(sorted(m["counters"].items())),
        "exhaustive": False,
    }
    if m["notes"]:
        cov["notes"] = m["notes"]
    if m["known"]:
        cov["known_findings_reproduced"] = m["known"]
    ev = {
        "property_id": pid,
        "tier": tier,
        "seed": seed,
        "level": "exploration",
        "coverage": cov,
        "assumptions": list(getattr(mod, "ASSUMPTIONS", [])),
        "wall_s": round(wall, 2),
        "violations": nviol,
    }
    os.makedirs(os.path.join(VERIF, "evidence"), exist_ok=True)
    path = os.path.join(VERIF, "evidence", pid + ".json")
    tmp = path + ".tmp%d" % os.getpid()
    with open(tmp, "w") as f:
        json.dump(ev, f, indent=1, sort_keys=True, default=repr)
        f.write("\n")
    os.replace(tmp, path)


def main(argv):
    global _REAL_OUT, _REAL_ERR
    _REAL_OUT = os.fdopen(os.dup(1), "w")
    _REAL_ERR = os.fdopen(os.dup(2), "w")
    ap = argparse.ArgumentParser(prog="check")
    ap.add_argument("pid")
    ap.add_argument("--tier", default=os.environ.get("VERIF_TIER", "quick"), choices=["quick", "thorough"])
    ap.add_argument("--replay")
    ap.add_argument("--shard", type=int, default=None)
    ap.add_argument("--nshards", type=int, default=None)
    ap.add_argument("--out")
    ap.add_argument("--verbose", action="store_true")
    a = ap.parse_args(argv)
    pid = a.pid.upper()
    if pid not in PROPS:
        err("unknown property %s" % pid)
        return 2
    try:
        seed = int(os.environ.get("VERIF_SEED", "1") or "1")
    except ValueError:
        seed = 1
    if not a.verbose:
        sys.stdout = _Sink()
        sys.stderr = _Sink()
    t0 = time.time()
    try:
        mod = _load(pid)
        if a.replay:
            with open(a.replay) as f:
                record = json.load(f)
            msgs = mod.judge_case(record)
            if msgs:
                kf = getattr(mod, "known_filter", None)
                fid = kf(record.get("case"), msgs) if kf else None
                if fid:
                    out("KNOWN-FINDING: property=%s %s (%s)" % (pid, fid, msgs[0]))
                    return 0
                for mline in msgs[:10]:
                    out("  " + mline)
                out("VIOLATION property=%s replay=%s" % (pid, os.path.abspath(a.replay)))
                return 1
            out("replay %s: property %s holds on this case" % (a.replay, pid))
            return 0
        if a.shard is not None:
            ctx = Ctx(pid, a.tier, seed, a.shard, a.nshards or 1)
            d = _run_inproc(pid, ctx)
            with open(a.out, "w") as f:
                json.dump(d, f, default=repr)
            return 0
        nshards = getattr(mod, "SHARDS", {}).get(a.tier, 1 if a.tier == "quick" else 16)
        if nshards > 1:
            m = _run_sharded(pid, a.tier, seed, nshards)
        else:
            m = _merge([_run_inproc(pid, Ctx(pid, a.tier, seed, 0, 1))])
        wall = time.time() - t0
        viols = m["violations"]
        _evidence(pid, a.tier, seed, mod, m, wall, len(viols))
        for fid, text in sorted(m["known"].items()):
            out("KNOWN-FINDING: property=%s %s %s" % (pid, fid, text))
        out("%s %s seed=%d: %d evaluations, %d distinct non-trivial, %.1fs, %d violation(s)" % (
            pid, a.tier, seed, m["evaluations"], len(m["nontrivial"]), wall, len(viols)))
        if viols:
            seen = set()
            for part, case, msgs in viols:
                if part in seen:
                    continue
                seen.add(part)
                path = _write_replay(pid, part, case, msgs)
                for mline in msgs[:6]:
                    out("  [%s] %s" % (part, mline[:600]))
                out("VIOLATION property=%s replay=%s" % (pid, path))
            return 1
        return 0
    except HarnessError as e:
        err("HARNESS-ERROR property=%s: %s" % (pid, e))
        return 2
    except Exception:
        err("HARNESS-ERROR property=%s (unexpected):\n%s" % (pid, traceback.format_exc()))
        return 2
