"""Thin access layer to the code under test (imported from PYAB_SRC, default /repo/src)."""
import importlib
import os
import sys

_SRC = os.path.abspath(os.environ.get("PYAB_SRC", "/repo/src"))


def _imp(name):
    mod = importlib.import_module(name)
    f = os.path.abspath(getattr(mod, "__file__", "") or "")
    if not f.startswith(_SRC + os.sep):
        raise RuntimeError("code under test imported from %s, expected under %s" % (f, _SRC))
    return mod


def evaluator_mod():
    return _imp("pyab_experiment.experiment_evaluator")


def binning():
    return _imp("pyab_experiment.binning.binning")


def wrappers():
    return _imp("pyab_experiment.utils.wraper_functions")


def stats_mod():
    return _imp("pyab_experiment.utils.stats")


def unroutable_error():
    return _imp("pyab_experiment.codegen.python.custom_exceptions").ExperimentConditionalFailedError


def codegen():
    return _imp("pyab_experiment.codegen.python.python_generator")


def compile_text(text, strict_warnings=False):
    """-> ("ok", evaluator) | ("error", exc_type_name, message).  strict_warnings: compile as a host running with warnings as
    errors would (python -W error): a grammatical experiment is no reason for a warning"""
    if strict_warnings:
        import warnings

        with warnings.catch_warnings():
            warnings.simplefilter("error")
            return compile_text(text)
    try:
        return ("ok", evaluator_mod().ExperimentEvaluator(text))
    except RecursionError as e:  # pragma: no cover - reported like any failure
        return ("error", "RecursionError", str(e)[:200])
    except Exception as e:
        return ("error", type(e).__name__, str(e)[:300])


def call(ev, inputs):
    """-> ("group", value) | ("unroutable",) | ("error", type_name, message)"""
    try:
        return ("group", ev(**inputs))
    except unroutable_error():
        return ("unroutable",)
    except Exception as e:
        return ("error", type(e).__name__, str(e)[:300])


def call_positional(ev, inputs):
    """the compiled function called with the values as POSITIONAL arguments, in alphabetical order of the field names"""
    try:
        return ("group", ev.run_experiment(*[inputs[k] for k in sorted(inputs)]))
    except unroutable_error():
        return ("unroutable",)
    except Exception as e:
        return ("error", type(e).__name__, str(e)[:300])


def same_value(a, b):
    """equal value AND equal type (recursively for tuples); floats by repr"""
    if type(a) is not type(b):
        return False
    if isinstance(a, float):
        return repr(a) == repr(b)
    if isinstance(a, (tuple, list)):
        return len(a) == len(b) and all(same_value(x, y) for x, y in zip(a, b))
    return a == b
