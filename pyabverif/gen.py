"""Hypothesis strategies: typed grammar-directed programs, inputs around literal boundaries,
weights, identifiers.  Every random choice is a Hypothesis draw."""
import keyword
import copy
import math

from hypothesis import strategies as st

from . import model as M

# --------------------------------------------------------------------------- identifier pools
PLAIN_POOL = ["a", "b", "c", "x", "y", "uid", "user_id", "country", "age", "my_fld", "field1",
              "field2", "k9", "plan", "tier", "zip_code", "score", "f_1", "Q", "dev"]
ADVERSARIAL_POOL = [
    # merely begin with (or contain) a DSL keyword
    "order_id", "index", "inbox", "android", "notify", "not_active", "iffy", "define",
    "elsewhere", "returned", "weighted_x", "salty", "ors", "in_x", "nots", "ifx", "defn",
    "splitters2", "return_code", "else_", "andy", "orb", "saltwater", "inn", "not_in",
    "x_in", "my_or", "band", "if_", "ins", "i", "n", "o", "d",
    # underscore / case / single letters
    "_", "_x", "__a", "X", "Abc", "camelCase", "UPPER_CASE", "a1", "z", "In", "Not", "IF", "Def",
    # names of the choice function's own parameters / of variables a code generator might use
    "population", "weights", "cum_weights", "input_id", "key", "composite_key", "args", "cls", "fn", "code_holder", "ast", "OR", "AND",
    "fields", "source_code", "text", "name", "value", "values", "data", "payload", "inputs", "mapping", "items", "params", "options",
    "config", "context", "request", "experiment", "evaluator", "result", "group", "variant", "salt_", "splitters_", "method", "n", "p",
    # words that are constants / keywords in OTHER languages (legal identifiers here), builtins with siblings that extend them
    "true", "false", "null", "nil", "none", "yes", "no", "on", "off", "undefined", "nan", "inf", "this", "var", "let", "function", "end", "then",
    "id", "id_", "id2", "type", "type_", "hash", "len", "list", "dict", "object", "input", "max", "min", "sum", "all", "any", "print", "exec", "eval",
]
# K1 (known finding): DSL identifiers that are not usable as Python names in the generated code
PY_RESERVED = set(keyword.kwlist) | {"True", "False", "None", "__debug__"}
HELPER_NAMES = {"partial", "deterministic_choice", "ExperimentConditionalFailedError",
                "choose_experiment_variant", "kwargs", "str", "map", "self"}
K1_NAMES = PY_RESERVED | HELPER_NAMES
AMBIGUOUS_NAMES = {"elseif"}  # documented regex else\s*if reads it as a keyword

assert not (set(PLAIN_POOL) | set(ADVERSARIAL_POOL)) & (K1_NAMES | M.DSL_KEYWORDS | AMBIGUOUS_NAMES)

EXP_NAMES = ["exp", "my_experiment", "test_1", "checkout_v2", "E", "_exp", "pricing", "onboarding_flow"]

SIMPLE_STRS = ["a", "b", "c", "xyz", "US", "CA", "FR", "x", "", "A", "b1", "free", "pro"]
SIMPLE_SALTS = ["s1", "salt", "csdvs887", "", "v2-exp", "HAGFEUAKVDU", "user_exp_v1", "A B", "7"]
# strings / salts that are perfectly legal DSL content but hostile to naive embedding in generated code: quotes, a trailing
# backslash, braces (str.format / f-string syntax), percent, compatibility characters (NFKC folds them to ASCII syntax)
TRICKY_STRS = ["C:\\", "a\\", "\\", "it's", 'say "hi"', "{x}", "{}", "{", "}", "{0}", "%s", "%(a)s", "100%", "tab\there", "\\n",
               "\uff02q\uff02", "\uff07", "\ufb01", "x\u00b2", "\u2126", "a\rb", "#", "$a", "`a`", "a;b", "\\'", "{{}}", "é", "日本", "Washington, DC", "a,b", ", ", "x, y)", "(1, 2)", "1, 2", "[a]", "name='a'", "a\tb", " pad ", "2", "2.0", '"""', "'''", 'say """hi"""', '""', "a\\\\", "#!", "x.pyab",
               # quotes and line breaks SPELLED in other notations (HTML entities, percent-encoding, escapes): plain characters here
               "Q&quot;A", "it&apos;s", "&#34;", "&#39;x", "a&#10;b", "&amp;", "&lt;b&gt;", "&#x27;", "&NewLine;", "%22", "%27x", "a%0Ab", "\\u0022", "\\x27", "&", "a&b",
               # typographic look-alikes of the language's own punctuation (what a word processor or chat tool makes of ' " - ...)
               "prix_d\u2019\u00e9t\u00e9", "\u2018q\u2019", "\u201cq\u201d", "\u201eq\u201c", "\u00abq\u00bb", "a\u2032b", "a\u2033", "\u00b4", "a\u2013b", "a\u2014b",
               "\u22121", "1\u20442", "a\u2026", "a\u00a0b", "a\u202fb", "\u00ad", "x\u200by", "\ufe63", "\uff0d1", "\uff0c", "\uff1a", "\uff5b\uff5d", "\uff08\uff09"]
# fragments of the text the code generator itself emits around a salt / a literal (a post-processing step that edits the
# generated text must not find its own patterns inside user strings)
TRICKY_STRS += ["x''+", "''+", "exp ''+ 2024", "'+'", "''", "+", "''.join(", "''.join(map(str, [uid]))", "')+(", "partial(", "deterministic_choice(", "weights=[1, 1]", "],",
                "population=[", "input_id=", "**kwargs", "):", "def f():", "return 'x'", "\t\t", "if (", " == ", "(a == 'b')", "raise ", "lambda: 0", "[", "]", "=", "==", ":", "'s'+", "+''"]
# strings that are complete documents in some data format (a decoder that sniffs content must not run on them)
TRICKY_STRS += ['[]', '[1, 2]', "{'a': 1}", '{"a": 1}', '[{"a": [1]}]', "null", "true", "123", "1.5e3", "<a>b</a>", "a=1&b=2", "---", "key: value", "b'x'", "0b11", "1_0", "(1+2)", "[1,2][0]"]
SALT_TEMPLATES = ["{%s}", "{%s}:v1", "x{%s!r}", "%%(%s)s", "${%s}", "{%s:>4}", "{0}{%s}"]


def idents(pool):
    return st.sampled_from(pool)


# --------------------------------------------------------------------------- weights
@st.composite
def weight_text(draw, kind="nice"):
    w = draw(_weight_text(kind))
    if draw(st.integers(0, 15)) == 0:
        w = "0" * draw(st.integers(1, 2)) + w  # column-aligned spelling (010, 007.5): still a decimal number
    return w


@st.composite
def _weight_text(draw, kind="nice"):
    if kind == "nice":
        return draw(st.sampled_from(["1", "1", "2", "3", "4", "5", "10", "0", "0.5", "3.4", "1.0",
                                     "0.25", "7", "100", "0.0", "2.5", "9", "50"]))
    if kind == "ints":
        return str(draw(st.one_of(st.integers(0, 12), st.integers(0, 1000), st.sampled_from([0, 1, 1, 2, 3, 10 ** 6, 10 ** 9]))))
    # wide: ints and decimals 1e-9 .. 1e9
    k = draw(st.integers(0, 5))
    if k == 0:
        return "0" if draw(st.booleans()) else "0.0"
    if k == 1:
        return str(draw(st.integers(1, 20)))
    if k == 2:
        return str(draw(st.integers(1, 10 ** 9)))
    if k == 3:
        ip = draw(st.integers(0, 10 ** draw(st.integers(0, 9))))
        nd = draw(st.integers(1, 9))
        fp = draw(st.integers(0, 10 ** nd - 1))
        return "%d.%0*d" % (ip, nd, fp)
    if k == 4:  # dyadic decimals: exact in binary
        return draw(st.sampled_from(["0.5", "0.25", "0.125", "0.75", "1.5", "2.25", "1024.0", "0.0625",
                                     "4.0", "16.5", "3.0", "0.375"]))
    nd = draw(st.integers(1, 9))
    return "0." + "0" * (nd - 1) + str(draw(st.integers(1, 9)))


def _is_zero(w):
    return float(w) == 0.0


@st.composite
def weight_vector(draw, n, kind="nice"):
    ws = [draw(weight_text(kind)) for _ in range(n)]
    if all(_is_zero(w) for w in ws):
        i = draw(st.integers(0, n - 1))
        ws[i] = "1" if kind == "nice" else draw(weight_text(kind).filter(lambda w: not _is_zero(w)))
    return ws


# --------------------------------------------------------------------------- typed program generator
NUM_LITS = [("0", False), ("1", False), ("2", False), ("3", False), ("5", False), ("10", False), ("18", False),
            ("21", False), ("100", False), ("1", True), ("7", True), ("4", False), ("9", False),
            ("9007199254740993", False), ("18446744073709551615", False)]
FLOAT_LITS = [("0.5", False), ("1.5", False), ("2.0", False), ("3.14", False), ("0.0", False), ("9.99", False),
              ("2.5", True), ("100.0", False), ("18.0", False), ("0.1", False)]


class _Env:
    """mutable typing environment while one program is being drawn"""

    def __init__(self, draw, pool, max_fields, strs):
        self.draw = draw
        self.pool = list(pool)
        self.fields = {}  # name -> cls   (num | str | tup | coll)
        self.max_fields = max_fields
        self.strs = strs

    def field(self, cls):
        """an identifier of class cls, or None if none can be had"""
        have = [n for n, c in self.fields.items() if c == cls]
        can_new = len(self.fields) < self.max_fields and len(self.fields) < len(self.pool)
        if have and (not can_new or self.draw(st.integers(0, 2)) > 0):
            return self.draw(st.sampled_from(have))
        if can_new:
            free = [n for n in self.pool if n not in self.fields]
            name = self.draw(st.sampled_from(free))
            self.fields[name] = cls
            return name
        return None

    # ---- terms
    def num_lit(self):
        if self.draw(st.integers(0, 3)) == 0:
            src, neg = self.draw(st.sampled_from(FLOAT_LITS))
            return M.lit_float(src, neg)
        src, neg = self.draw(st.sampled_from(NUM_LITS))
        return M.lit_int(src, neg)

    def str_lit(self):
        s = self.draw(st.sampled_from(self.strs))
        q = self.draw(st.sampled_from(["'", '"']))
        if q in s:
            q = "'" if q == '"' else '"'
        return M.lit_str(s, q)

    def term(self, cls, prefer_ident=True):
        d = self.draw
        want_ident = d(st.integers(0, 9)) < (6 if prefer_ident else 2)
        if want_ident or cls == "coll":
            n = self.field(cls)
            if n is not None:
                return M.ident(n)
            if cls == "coll":
                return None
        if cls == "num":
            return self.num_lit()
        if cls == "str":
            return self.str_lit()
        if cls == "tup":
            k = d(st.integers(1, 3))
            return M.tup([self.term("num", prefer_ident=d(st.booleans())) for _ in range(k)])
        raise ValueError(cls)

    def cmp(self, ops):
        d = self.draw
        op = d(st.sampled_from(ops))
        if op in (">", "<", ">=", "<="):
            cls = d(st.sampled_from(["num", "num", "num", "str", "str", "tup"]))
            l = self.term(cls)
            r = self.term(cls, prefer_ident=(l["k"] != "id"))
        elif op in ("==", "!="):
            cls = d(st.sampled_from(["num", "num", "str", "str", "tup"]))
            l = self.term(cls)
            rcls = cls if d(st.integers(0, 9)) else d(st.sampled_from(["num", "str", "tup"]))
            r = self.term(rcls, prefer_ident=(l["k"] != "id"))
        else:
            kind = d(st.sampled_from(["tuple", "tuple", "tuple", "coll", "substr"]))
            if kind == "coll":
                r = self.term("coll")
                if r is None:
                    kind = "tuple"
                else:
                    l = self.term(d(st.sampled_from(["num", "str"])))
            if kind == "substr":
                l = self.term("str")
                r = self.term("str", prefer_ident=(l["k"] != "id"))
            if kind == "tuple":
                cls = d(st.sampled_from(["num", "num", "str", "str", "tup"]))
                l = self.term(cls)
                k = d(st.integers(1, 4))
                items = []
                for _ in range(k):
                    icls = cls if d(st.integers(0, 7)) else d(st.sampled_from(["num", "str"]))
                    items.append(self.term(icls, prefer_ident=False))
                r = M.tup(items)
        if op not in ("in", "not in") and d(st.integers(0, 5)) == 0:
            l, r = r, l  # orientation: literal on the left, identifier on the right
        return M.cmp_(l, op, r, self.paren())

    def paren(self):
        return self.draw(st.sampled_from([0, 0, 0, 0, 0, 1, 1, 2]))

    def pred(self, depth, ops):
        d = self.draw
        if depth <= 0 or d(st.integers(0, 9)) < 5:
            return self.cmp(ops)
        k = d(st.sampled_from(["not", "and", "or", "and", "or"]))
        if k == "not":
            return M.not_(self.pred(depth - 1, ops), self.paren())
        l = self.pred(depth - 1, ops)
        r = self.pred(depth - 1, ops)
        return (M.and_ if k == "and" else M.or_)(l, r, self.paren())


class _Labels:
    def __init__(self, draw, mixed):
        self.draw = draw
        self.idx = 0
        self.mixed = mixed

    def ret(self, max_groups, wkind):
        d = self.draw
        i = self.idx
        self.idx += 1
        n = d(st.integers(1, max_groups))
        ws = d(weight_vector(n, wkind))
        groups = []
        for j in range(n):
            kind = d(st.integers(0, 9)) if self.mixed else 0
            if kind == 9:
                lit = M.lit_int(str(i * 1000 + j), False)
            elif kind == 8:
                lit = M.lit_float("%d.5" % (i * 1000 + j), d(st.booleans()))
            else:
                lit = M.lit_str("g%d_%d" % (i, j), d(st.sampled_from(['"', '"', "'"])))
            groups.append((lit, ws[j]))
        return M.ret(groups)


def _body(env, labels, depth, max_branches, max_groups, pred_depth, ops, wkind, must_if=False):
    d = env.draw
    if depth <= 0 or (not must_if and d(st.integers(0, 9)) < 3):
        return labels.ret(max_groups, wkind)
    nb = d(st.integers(1, max_branches))
    branches = []
    for _ in range(nb):
        seen = env.__dict__.setdefault("seen_preds", [])
        if seen and d(st.integers(0, 5)) == 0:
            # the same test written again elsewhere (in a nested chain and again in the outer one, twice in one chain ...)
            p = copy.deepcopy(d(st.sampled_from(seen)))
        else:
            p = env.pred(pred_depth, ops)
            seen.append(p)
        branches.append((p, _body(env, labels, depth - 1, max_branches, max_groups, pred_depth, ops, wkind)))
    else_ = None
    if d(st.integers(0, 9)) < 6:
        else_ = _body(env, labels, depth - 1, max_branches, max_groups, pred_depth, ops, wkind)
    return M.if_(branches, else_)


def _idents_only_in_tuples(body):
    plain, inside = set(), set()
    for p in M.preds(body):
        for c in M.cmps(p):
            for t in (c["l"], c["r"]):
                if t["k"] == "id":
                    plain.add(t["name"])
                elif t["k"] == "tuple":
                    inside.update(M.term_idents(t))
    return inside - plain


@st.composite
def programs(draw, *, pool=PLAIN_POOL, min_splitters=0, max_splitters=3, conditional=None,
             max_depth=2, max_branches=3, max_groups=4, pred_depth=2, ops=M.OPS, wkind="nice",
             salts=SIMPLE_SALTS, strs=SIMPLE_STRS, max_fields=5, mixed_labels=True, names=EXP_NAMES,
             share=True, tricky=False):
    """-> case skeleton {"prog":…, "classes": {field: cls}}"""
    if tricky:
        strs = list(strs) + TRICKY_STRS
    env = _Env(draw, pool, max_fields, strs)
    labels = _Labels(draw, mixed_labels)
    if conditional is None:
        conditional = draw(st.integers(0, 9)) < 8
    if conditional:
        body = _body(env, labels, draw(st.integers(1, max_depth)), max_branches, max_groups, pred_depth,
                     ops, wkind, must_if=True)
    else:
        body = labels.ret(max_groups, wkind)
    classes = dict(env.fields)
    nsp = draw(st.integers(min_splitters, max_splitters))
    splitters = []
    for _ in range(nsp):
        cand_shared = [n for n in classes if n not in splitters and classes[n] in ("num", "str")]
        only_in_tuples = [n for n in cand_shared if n in _idents_only_in_tuples(body)]
        if only_in_tuples and draw(st.booleans()):
            cand_shared = only_in_tuples  # a splitter that the conditions mention only inside a tuple
        free = [n for n in pool if n not in classes and n not in splitters]
        if share and cand_shared and (not free or draw(st.integers(0, 9)) < 3):
            splitters.append(draw(st.sampled_from(cand_shared)))
        elif free:
            n = draw(st.sampled_from(free))
            splitters.append(n)
            classes[n] = "any"
    if splitters and draw(st.integers(0, 7)) == 0:
        # the <fields> rule allows a name to be listed twice: it is one field
        splitters.insert(draw(st.integers(0, len(splitters))), draw(st.sampled_from(splitters)))
    salt = draw(st.one_of(st.none(), st.sampled_from(salts))) if salts else None
    if tricky and draw(st.integers(0, 2)) == 0:
        if classes and draw(st.booleans()):
            # a salt that spells a format / f-string replacement field naming one of the experiment's own fields
            salt = draw(st.sampled_from(SALT_TEMPLATES)) % draw(st.sampled_from(sorted(classes)))
        else:
            salt = draw(st.sampled_from(TRICKY_STRS))
    name = draw(st.sampled_from(names))
    salt_q = draw(st.sampled_from(['"', "'"]))
    if salt is not None and salt_q in salt:
        salt_q = "'" if salt_q == '"' else '"'
    prog = M.program(name, body, salt=salt, splitters=splitters or None, salt_q=salt_q)
    return {"prog": prog, "classes": classes}


# --------------------------------------------------------------------------- inputs
def _num_neighbours(v):
    res = [v]
    if isinstance(v, int):
        res += [v - 1, v + 1, float(v), v + 0.5, v - 0.5]
    else:
        res += [math.nextafter(v, math.inf), math.nextafter(v, -math.inf), v + 1.0, v - 1.0]
        if v == int(v):
            res.append(int(v))
    return res


def _str_neighbours(s):
    res = [s, s + "x", s[:-1], s.swapcase(), s + " ", "~" + s]
    return res


NUM_POOL = [0, 1, 2, 3, 4, 5, 6, 9, 10, 11, 17, 18, 19, 21, 100, -1, -7, 0.5, 1.5, 2.5, -2.5, 3.14, 18.0]
STR_POOL = ["a", "b", "c", "xyz", "US", "CA", "FR", "", "A", "b1", "zz", "free", "pro", "x"]
import decimal as _decimal
import fractions as _fractions

# numbers that are not builtin ints / floats (database NUMERIC columns, exact rationals): they print - and therefore hash - as
# they are, and compare exactly
EXACT_NUMBERS = [_decimal.Decimal("7.10"), _decimal.Decimal("0.1"), _decimal.Decimal(10 ** 20 + 1), _decimal.Decimal(10 ** 20 + 2), _decimal.Decimal("1E+2"),
                 _decimal.Decimal("-0"), _fractions.Fraction(1, 3), _fractions.Fraction(1, 10), _fractions.Fraction(7, 1), _fractions.Fraction(9007199254740993, 1)]
ANY_POOL = ["u1", "u2", "user-42", 7, 42, 3.5, "", "abc", 0, True, None, "00123", -1, 1e300, b"u1", b"user-42", b""] + EXACT_NUMBERS[:4] + EXACT_NUMBERS[6:8]


def interesting_values(prog, classes):
    """per field: values at and next to every literal it is compared with"""
    vals = {n: [] for n in classes}
    for p in M.preds(prog["body"]):
        for c in M.cmps(p):
            for a, b in ((c["l"], c["r"]), (c["r"], c["l"])):
                if a["k"] == "id" and a["name"] in classes:
                    cls = classes[a["name"]]
                    if cls == "coll":
                        # elements: values of the other side's literals
                        for l in M.term_lits(b):
                            vals[a["name"]].append(M.lit_value(l))
                        continue
                    if b["k"] == "tuple" and cls == "tup" and not M.term_idents(b):
                        from . import refinterp
                        tv = refinterp.term_value(b, {})
                        if not all(isinstance(e, (int, float)) for e in tv):
                            continue  # keep tup-class fields numeric: they may also be ordered against tuples
                        vals[a["name"]] += [tv, tv[:-1], tv + (0,)]
                        if tv and isinstance(tv[-1], (int, float)):
                            vals[a["name"]] += [tv[:-1] + (tv[-1] + 1,), tv[:-1] + (tv[-1] - 1,)]
                    for l in M.term_lits(b):
                        v = M.lit_value(l)
                        if cls == "num" and isinstance(v, (int, float)):
                            vals[a["name"]] += _num_neighbours(v)
                        elif cls == "str" and isinstance(v, str):
                            vals[a["name"]] += _str_neighbours(v)
                        elif cls == "tup" and isinstance(v, (int, float)):
                            vals[a["name"]] += [(v,), (v, v), (v - 1, v), (v + 1,)]
    return vals


@st.composite
def inputs_for(draw, prog, classes, interesting=None):
    if interesting is None:
        interesting = interesting_values(prog, classes)
    env = {}
    for name, cls in classes.items():
        iv = interesting.get(name) or []
        if cls == "num":
            pool = iv + NUM_POOL if iv and draw(st.integers(0, 3)) else NUM_POOL
            v = draw(st.sampled_from(pool))
            if draw(st.integers(0, 11)) == 0:
                # a missing number as data pipelines deliver it (NaN: every ordering test is false, `not x < 5` is true), or an infinity
                v = draw(st.sampled_from([float("nan"), float("nan"), float("inf"), float("-inf")]))
        elif cls == "str":
            pool = iv + STR_POOL if iv and draw(st.integers(0, 3)) else STR_POOL
            v = draw(st.sampled_from(pool))
        elif cls == "tup":
            if iv and draw(st.integers(0, 3)):
                v = draw(st.sampled_from(iv))
            else:
                v = tuple(draw(st.lists(st.sampled_from(NUM_POOL[:12]), min_size=0, max_size=3)))
        elif cls == "coll":
            base = [x for x in iv if isinstance(x, (int, float, str))] + [0, 1, 2, 3, "a", "b", "c", "US"]
            items = draw(st.lists(st.sampled_from(base), min_size=0, max_size=5))
            kind = draw(st.sampled_from(["tuple", "list", "set", "frozenset"]))
            v = {"tuple": tuple, "list": list, "set": set, "frozenset": frozenset}[kind](items)
        else:  # splitter-only field
            v = draw(st.sampled_from(ANY_POOL))
        env[name] = v
    return env


@st.composite
def program_cases(draw, n_inputs=(4, 10), **kw):
    sk = draw(programs(**kw))
    prog, classes = sk["prog"], sk["classes"]
    iv = interesting_values(prog, classes)
    n = draw(st.integers(*n_inputs))
    inputs = [M.enc_inputs(draw(inputs_for(prog, classes, iv))) for _ in range(n)]
    from . import common

    return {"prog": prog, "classes": classes, "inputs": inputs, "noise": draw(common.noise_strategy())}


# --------------------------------------------------------------------------- large shapes (C07)
@st.composite
def big_programs(draw, pool=PLAIN_POOL):
    kind = draw(st.sampled_from(["chain", "nest", "groups", "pred", "flat-bool"]))
    env = _Env(draw, pool, 6, SIMPLE_STRS)
    labels = _Labels(draw, False)
    if kind == "chain":
        n = draw(st.integers(10, 60))
        f = env.field("num")
        branches = [(M.cmp_(M.ident(f), "==", M.lit_int(str(i))), labels.ret(2, "nice")) for i in range(n)]
        body = M.if_(branches, labels.ret(2, "nice") if draw(st.booleans()) else None)
    elif kind == "nest":
        n = draw(st.integers(4, 12))
        f = env.field("num")
        body = labels.ret(2, "nice")
        for i in range(n):
            else_ = labels.ret(1, "nice") if draw(st.booleans()) else None
            body = M.if_([(M.cmp_(M.ident(f), ">=", M.lit_int(str(n - i))), body)], else_)
    elif kind == "groups":
        body = M.ret([(M.lit_str("g%d" % j), draw(weight_text("nice"))) for j in range(draw(st.integers(16, 64)))])
        if all(_is_zero(g["w"]) for g in body["groups"]):
            body["groups"][0]["w"] = "1"
        if draw(st.booleans()):
            f = env.field("str")
            body = M.if_([(M.cmp_(M.ident(f), "!=", M.lit_str("zz")), body)], labels.ret(1, "nice"))
    elif kind == "flat-bool":
        # long flat and/or chains: a == 1 or a == 2 or ... (left-nested by the grammar)
        n = draw(st.integers(13, 100))
        f = env.field("num")
        g = env.field("str")
        op = draw(st.sampled_from(["or", "and"]))
        p = M.cmp_(M.ident(f), "==" if op == "or" else "!=", M.lit_int("0"))
        for i in range(1, n):
            q = (M.cmp_(M.ident(f), "==" if op == "or" else "!=", M.lit_int(str(i))) if i % 3 else
                 M.cmp_(M.ident(g), "==" if op == "or" else "!=", M.lit_str("s%d" % i)))
            p = (M.or_ if op == "or" else M.and_)(p, q)
        body = M.if_([(p, labels.ret(2, "nice"))], labels.ret(2, "nice") if draw(st.booleans()) else None)
    else:
        n = draw(st.integers(4, 12))
        f = env.field("num")
        p = M.cmp_(M.ident(f), "<", M.lit_int("5"))
        for i in range(n):
            k = draw(st.sampled_from(["not", "and", "or"]))
            q = M.cmp_(M.ident(env.field("num") or f), draw(st.sampled_from([">", "<=", "==", "!="])),
                       M.lit_int(str(i)))
            if k == "not":
                p = M.not_(p, draw(st.integers(0, 1)))
            elif draw(st.booleans()):
                p = (M.and_ if k == "and" else M.or_)(p, q, draw(st.integers(0, 1)))
            else:
                p = (M.and_ if k == "and" else M.or_)(q, p, draw(st.integers(0, 1)))
        body = M.if_([(p, labels.ret(2, "nice"))], labels.ret(2, "nice") if draw(st.booleans()) else None)
    classes = dict(env.fields)
    splitters = None
    if draw(st.booleans()):
        free = [n for n in pool if n not in classes]
        s = draw(st.sampled_from(free))
        classes[s] = "any"
        splitters = [s]
    prog = M.program(draw(st.sampled_from(EXP_NAMES)), body, salt=draw(st.one_of(st.none(), st.sampled_from(SIMPLE_SALTS))),
                     splitters=splitters)
    iv = interesting_values(prog, classes)
    inputs = [M.enc_inputs(draw(inputs_for(prog, classes, iv))) for _ in range(draw(st.integers(3, 6)))]
    return {"prog": prog, "classes": classes, "inputs": inputs, "shape": kind}


# --------------------------------------------------------------------------- field values (C01/C12/C15)
def _finite_floats():
    return st.floats(allow_nan=False, allow_infinity=False)


def splitter_values(wild=False):
    base = [
        st.sampled_from(ANY_POOL),
        st.integers(-10 ** 6, 10 ** 9),
        st.text(alphabet="abcdefghijklmnopqrstuvwxyz0123456789-_@.", min_size=0, max_size=24),
        _finite_floats(),
        st.sampled_from([float("nan"), float("inf"), float("-inf"), -0.0, 0.0, True, False, None]),
        st.sampled_from(EXACT_NUMBERS),
    ]
    if wild:
        base += [
            st.text(alphabet=st.characters(exclude_categories=["Cs"]), max_size=40),
            st.integers(-10 ** 40, 10 ** 40),
        ]
    return st.one_of(*base)
