"""C07 - every grammatical experiment compiles and evaluates."""
from hypothesis import strategies as st

from .. import refinterp, common, gen, refgrammar, runner, sut
from .. import model as M

ID = "C07"
RULE = ("Sentences of the reference grammar from the typed program generator over an adversarial identifier pool (names that "
        "begin with / contain a DSL keyword: order_id, index, inbox, android, notify, not_active, iffy, define, in_x, not_in ...; "
        "_ , _x, upper / camel case, single letters; the experiment's own name as a field; experiments named like helpers of the generated code (partial, str, map ...); string literals and salts hostile to naive embedding (trailing backslash, quotes, braces, {field} templates, percent, compatibility characters); fields shared between splitters and "
        "conditions), identifiers and nested / one-element tuples inside tuples, all operators, both quote styles, redundant "
        "parentheses; plus large shapes (else-if chains up to 60, nesting up to 12, 64 groups, predicate depth 12). Every "
        "generated text is first confirmed to be a sentence by the independent Earley recogniser. Oracle: construction "
        "succeeds and every evaluation on type-compatible inputs ends in a group of the program or the unroutable error. "
        "Non-trivial = uses a keyword-prefixed identifier, a shared splitter/condition field, an identifier or tuple inside a "
        "tuple, chain>=10, nesting>=4 or >=16 groups; distinct by text.")
RULE += (' Since round 6: the stated maxima combined (12 levels x 60-link chains on one path).')
RULE += (' Since rounds 14-15: every documented code-generator option (indentation string x layout) for a quarter of the cases.')
ASSUMPTIONS = [
    "identifiers that are Python reserved words or names of the generated code's helpers are excluded from the main "
    "generator (known finding K1, probed separately); `elseif` is excluded (documented regex else\\s*if reads it as a keyword)",
    "only type-compatible inputs are generated",
]
SHARDS = {"quick": 1, "thorough": 16}

POOL = gen.ADVERSARIAL_POOL + gen.PLAIN_POOL[:8]
NAMES = gen.EXP_NAMES + ["index", "order", "notify", "define", "android", "inbox", "_", "X", "in_", "iffy", "return_",
                         # names of the generated code's helpers are legal EXPERIMENT names (only as fields they are K1)
                         "partial", "deterministic_choice", "str", "map", "kwargs", "self", "choose_experiment_variant",
                         "ExperimentConditionalFailedError"]
KW_PREFIXES = ("def", "salt", "splitters", "if", "else", "weighted", "return", "and", "or", "not", "in")


def _kw_prefixed(name):
    return any(name.startswith(k) and name != k for k in KW_PREFIXES)


@st.composite
def cases(draw):
    own = draw(st.integers(0, 5)) == 0
    names = NAMES
    pool = POOL
    if own:
        # the experiment's own name doubles as a field
        nm = draw(st.sampled_from(["index", "order", "exp_x", "notify"]))
        names = [nm]
        pool = [nm] + POOL[:10]
    c = draw(gen.program_cases(pool=pool, names=names, n_inputs=(3, 6), max_fields=6, tricky=draw(st.booleans())))
    c["shape"] = "typed"
    k = draw(st.integers(0, 5))
    if k == 0:
        # the same sentence written with other whitespace / comments (CRLF, form feed, NBSP, // and /* */) is still a sentence
        from .. import gen_text

        c["text"] = draw(gen_text.trivia_variant(M.program_tokens(c["prog"])))[0]
    elif k == 1:
        # a second experiment with the SAME name (say, the candidate revision) is compiled and stays alive next to this one
        sib = draw(gen.programs(pool=pool, names=[c["prog"]["name"]], max_fields=3, max_depth=1))
        c["sibling"] = sib["prog"]
    return c


def known_ids(role="field"):
    for k in runner.known_for("C07"):
        if k.get("id") == "K1":
            return set(k.get("identifiers" if role == "field" else "name_identifiers", []))
    return set()


def known_filter(case, viol):
    if not isinstance(case, dict) or "prog" not in case:
        return None
    prog = case["prog"]
    if set(M.all_fields(prog)) & known_ids("field") or prog["name"] in known_ids("name"):
        return "K1"
    return None


def judge(case):
    prog = case["prog"]
    text = case.get("text") or M.render(prog)
    toks = M.program_tokens(prog)
    if not refgrammar.accepts([t for t, _ in toks]):
        raise runner.HarnessError("generator produced a non-sentence: " + text)
    if "text" in case and not refgrammar.accepts([t for t, _ in refgrammar.lex(text)]):  # whole-word keyword reading
        raise runner.HarnessError("trivia variant is not a sentence: %r" % text)
    tags = common.shape_tags(prog)
    idents = M.all_identifiers(prog)
    nt = False
    if any(_kw_prefixed(n) for n in idents):
        tags.append("keyword-prefixed-identifier")
        nt = True
    if prog["name"] in M.all_fields(prog):
        tags.append("experiment-name-used-as-field")
        nt = True
    for t in ("shared-splitter-condition-field", "tuple-with-ident", "nested-tuple"):
        if t in tags:
            nt = True
    rets = M.returns(prog["body"])
    if M.max_chain(prog["body"]) >= 10:
        tags.append("chain>=10")
        nt = True
    if M.depth(prog["body"]) >= 4:
        tags.append("nesting>=4")
        nt = True
    if max(len(r["groups"]) for r in rets) >= 16:
        tags.append("groups>=16")
        nt = True
    if max([M.pred_depth(p) for p in M.preds(prog["body"])] or [0]) >= 4:
        tags.append("predicate-depth>=4")
    if max([len(M.cmps(p)) for p in M.preds(prog["body"])] or [0]) >= 13:
        tags.append("predicate-atoms>=13")
        nt = True
    tags += common.pre_noise(case)
    res = sut.compile_text(text, strict_warnings=True)
    if res[0] != "ok":
        after = ""
        if case.get("noise"):
            after = " | compiled right after the unrelated text %r" % case["noise"]
            common.reset_after_violation()
        return {"viol": ["grammatical experiment does not compile: %s: %s | %s%s" % (res[1], res[2], text, after)], "nontrivial": nt,
                "tags": tags, "key": text}
    labels = [M.lit_value(g["lit"]) for r in rets for g in r["groups"]]
    viol = []
    if case.get("sibling"):
        tags.append("same-name-sibling-alive")
        sib = sut.compile_text(M.render(case["sibling"]))  # kept alive in `sib` while the first evaluator is used
        if sib[0] != "ok" and not (set(M.all_fields(case["sibling"])) & known_ids("field")):
            viol.append("grammatical experiment does not compile: %s: %s | %s" % (sib[1], sib[2], M.render(case["sibling"])))
    if "text" in case:
        tags.append("written-with-trivia")
    if case.get("shape") != "k1" and not (set(idents) & (known_ids("field") | known_ids("name") | gen.K1_NAMES)) and runner.digest(text)[0] in "0123":
        # the same experiment through every documented option of the code generator (indentation string x layout)
        tags.append("generator-options")
        env0 = M.dec_inputs(case["inputs"][0]) if case["inputs"] else None
        for label, fn, err in common.rendered_with_options(text, prog["name"]):
            if err:
                viol.append("grammatical experiment does not compile with %s: %s | %s" % (label, err, text))
                break
            if env0 is not None:
                a, b = sut.call(res[1], env0), sut.call(fn, env0)
                if a[0] != b[0] or (a[0] == "group" and prog.get("splitters") and not sut.same_value(a[1], b[1])):
                    viol.append("with %s the module gives %r, the evaluator %r | inputs=%r | %s" % (label, b[:2], a[:2], env0, text))
                    break
    for enc in case["inputs"]:
        env = M.dec_inputs(enc)
        act = sut.call(res[1], env)
        if act[0] == "error":
            viol.append("evaluation raised %s: %s | inputs=%r | %s" % (act[1], act[2], env, text))
        elif act[0] == "group" and not any(sut.same_value(act[1], l) for l in labels):
            viol.append("evaluation returned %r which is not a group of the program | inputs=%r | %s" % (act[1], env, text))
    return {"viol": viol[:4], "nontrivial": nt, "tags": tags, "key": text,
            "sample": {"text": text[:400], "inputs": [M.dec_inputs(e) for e in case["inputs"][:2]]}}


def judge_text(case):
    """a raw text the reference recogniser accepts (found by the atheris campaign) must compile"""
    text = case["text"]
    if refgrammar.classify(text) != "accept":
        return {"viol": [], "nontrivial": False, "tags": ["text:not-a-sentence"]}
    ids = {t for ty, t in refgrammar.lex(text) if ty == "ID"}
    if ids & (known_ids("field") | known_ids("name") | gen.AMBIGUOUS_NAMES):
        return {"viol": [], "nontrivial": False, "tags": ["text:k1"]}
    res = sut.compile_text(text, strict_warnings=True)
    viol = [] if res[0] == "ok" else ["grammatical text does not compile: %s: %s | %r" % (res[1], res[2], text)]
    return {"viol": viol, "nontrivial": True, "tags": ["text:sentence"], "key": text}


def judge_case(record):
    c = record["case"]
    return (judge_text(c) if "text" in c else judge(c))["viol"]


# --------------------------------------------------------------------------- K1 probe (known finding)
def k1_probes():
    R = M.ret([(M.lit_str("A"), "1"), (M.lit_str("B"), "1")])
    for n in ["class", "is", "None", "lambda", "partial", "str", "map", "kwargs", "self", "deterministic_choice",
              "choose_experiment_variant", "ExperimentConditionalFailedError"]:
        yield {"prog": M.program("exp", R, splitters=[n]), "inputs": [M.enc_inputs({n: "u1"})], "shape": "k1"}
        yield {"prog": M.program("exp", M.if_([(M.cmp_(M.ident(n), "==", M.lit_int("1")), R)], M.ret([(M.lit_str("C"), "1")]))),
               "inputs": [M.enc_inputs({n: 1}), M.enc_inputs({n: 2})], "shape": "k1"}
    n = "ExperimentConditionalFailedError"
    yield {"prog": M.program("exp", M.if_([(M.cmp_(M.ident(n), "==", M.lit_int("1")), R)], None)),
           "inputs": [M.enc_inputs({n: 2})], "shape": "k1"}
    for n in ["class", "None", "import"]:
        yield {"prog": M.program(n, R, splitters=["uid"]), "inputs": [M.enc_inputs({"uid": "u1"})], "shape": "k1"}


def fixed_programs():
    """hand-picked shapes that random generation reaches rarely"""
    I, L, T = M.ident, M.lit_int, M.tup
    R0 = M.ret([(M.lit_str("in"), "1"), (M.lit_str("in2"), "1")])
    R1 = M.ret([(M.lit_str("out"), "1")])

    def prog(pred, splitters=None, salt=None, name="exp"):
        return M.program(name, M.if_([(pred, R0)], R1), salt=salt, splitters=splitters)

    envs = [{"x": (1, 2), "y": 1, "a": 1, "b": 2, "c": 3, "uid": "u1", "index": 1, "order_id": 2},
            {"x": 7, "y": (1, (2, 3)), "a": 2, "b": 3, "c": 4, "uid": "u2", "index": 0, "order_id": 0},
            {"x": 0.5, "y": 0.5, "a": 0.5, "b": 0.5, "c": 0.5, "uid": "u3", "index": 0.5, "order_id": 0.5},
            {"x": 0.05, "y": 0.05, "a": 0, "b": 0, "c": 0, "uid": "u4", "index": 0, "order_id": 0},
            {"x": 1, "y": float("nan"), "a": 1, "b": 0, "c": 0, "uid": "u5", "index": 0, "order_id": 0},
            {"x": 1, "y": float("inf"), "a": float("nan"), "b": 0, "c": 0, "uid": "u6", "index": 0, "order_id": 0}]
    shapes = [
        # identifiers that occur ONLY inside a nested tuple / only inside a tuple
        prog(M.cmp_(I("x"), "in", T([T([I("a"), L("1")]), T([I("b"), L("2")])]))),
        prog(M.cmp_(T([I("a"), T([I("b"), I("c")])]), "==", I("y"))),
        prog(M.cmp_(I("y"), "in", T([T([L("1"), T([I("a")])]), L("2")]))),
        prog(M.cmp_(I("x"), "not in", T([T([T([I("c")])])]))),
        prog(M.cmp_(I("x"), "in", T([T([I("a"), L("1")]), T([I("b"), L("2")])])), splitters=["a"]),
        prog(M.cmp_(I("x"), "in", T([T([I("uid"), L("1")])])), splitters=["uid"]),
        prog(M.cmp_(I("x"), "==", T([I("index"), I("order_id")])), splitters=["order_id", "index"], salt="s"),
        prog(M.and_(M.cmp_(T([I("a")]), "!=", T([I("b")])), M.not_(M.cmp_(I("x"), "in", T([I("c")])))), splitters=["c", "x"]),
        # the experiment's own name as the only field, inside a tuple
        prog(M.cmp_(L("1"), "in", T([I("exp"), L("2")]))),
        prog(M.cmp_(I("y"), "in", I("x")), splitters=["y"]),
        # fields named like parameters an API around the experiment might have
        prog(M.cmp_(I("fields"), "==", L("1")), splitters=["fields"]),
        prog(M.and_(M.cmp_(I("source_code"), "==", L("1")), M.cmp_(I("args"), "!=", I("text"))), splitters=["name", "value"]),
        prog(M.cmp_(I("population"), "in", T([I("weights"), I("input_id")])), splitters=["cum_weights", "key"]),
        prog(M.cmp_(I("method"), "==", I("n")), splitters=["p", "confidence"]),
        # negated ordering comparisons (not the same question as the complementary operator when a NaN comes in)
        prog(M.not_(M.cmp_(I("y"), ">", L("4")))),
        prog(M.and_(M.not_(M.cmp_(I("y"), "<=", M.lit_float("0.5"))), M.not_(M.cmp_(L("3"), "<", I("y")))), splitters=["uid"]),
        prog(M.or_(M.not_(M.cmp_(I("y"), ">=", I("a"))), M.cmp_(I("y"), "!=", I("y")))),
        # numeric literals a formatter might be tempted to rewrite
        M.program("exp", M.if_([(M.cmp_(I("y"), "==", M.lit_float("0.5")), M.ret([(M.lit_float("0.5"), "0.5"), (M.lit_float("1.50"), "0.25")])),
                                (M.cmp_(I("y"), "<", M.lit_float("0.10")), M.ret([(M.lit_int("007"), "1"), (M.lit_float("1.0"), "1.0")]))],
                               M.ret([(M.lit_float("0.5", True), "1")])), splitters=["uid"]),
    ]
    # salts / strings that are hostile to naive embedding, with and without splitters
    hostile = []
    for i, t in enumerate(["{", "}", "{}", "{x}", "{0}", "{uid}", "%s", "%(uid)s", "C:\\", "a\\", "it's", 'say "hi"', "\uff02", "\uff07q", "a\rb",
                           "{{", "$uid", "#", "\\'", "\\n", "tab\there", "\tlead", "x\t", " lead", "trail ", "\u00a0", "\x0c"]):
        q = "'" if '"' in t else '"'
        body = M.if_([(M.cmp_(I("x"), "==", M.lit_str(t, q)), M.ret([(M.lit_str(t + " A", q), "1"), (M.lit_str("B"), "1")]))], R1)
        hostile.append((M.program("exp", body, salt=t, splitters=["uid"] if i % 3 else ["uid", "x"], salt_q=q), t))
        if i % 4 == 0:
            hostile.append((M.program("exp", body, salt=t, splitters=None, salt_q=q), t))
    for p, t in hostile:
        # inputs that reach the literal (so the two-group statement, the salt and the label all matter) and one that does not
        yield {"prog": p, "inputs": [M.enc_inputs({"uid": "u%d" % j, "x": t}) for j in range(8)] + [M.enc_inputs({"uid": "u1", "x": "other"})],
               "shape": "fixed"}
    for p in shapes:
        fields = M.all_fields(p)
        ins = []
        ordered = any(c["op"] in ("<", ">", "<=", ">=") for pr in M.preds(p["body"]) for c in M.cmps(pr))
        for e in (envs[2:] + [dict(envs[0], y=1)] if ordered else envs):
            env = {f: e.get(f, 1) for f in fields}
            if "exp" in fields:
                env["exp"] = 1
            ins.append(M.enc_inputs(env))
        # container-typed right operand of `in`
        if p["body"]["branches"][0][0].get("op") == "in" and p["body"]["branches"][0][0]["r"]["k"] == "id":
            ins = [M.enc_inputs({"x": (1, 2), "y": 1}), M.enc_inputs({"x": [3], "y": 1})]
        yield {"prog": p, "inputs": ins, "shape": "fixed"}


def unroutable_programs():
    """chains without a final else, asked about values of every shape that match no link: the outcome is the unroutable error
    (never a TypeError from building its message), for one, two and no condition fields"""
    I, L, S, T = M.ident, M.lit_int, M.lit_str, M.tup
    R = M.ret([(S("a"), "1"), (S("b"), "1")])
    odd = [(), (2, 3, 9), (1,), (1, 2), [1, 2], [], {"a": 1}, {}, "s%d", "100%", "%(x)s", "{0}", "", None, 0, -1, float("nan"), b"x", ("%s", "%d")]
    progs = [M.program("exp", M.if_([(M.cmp_(I("app_version"), "==", T([L("2"), L("4"), L("0")])), R)], None), splitters=["uid"]),
             M.program("exp", M.if_([(M.cmp_(S("beta"), "in", I("tags")), R), (M.cmp_(I("tags"), "==", S("never")), R)], None), splitters=["uid"]),
             M.program("exp", M.if_([(M.cmp_(I("x"), "==", S("never")), R)], None)),
             M.program("exp", M.if_([(M.and_(M.cmp_(I("x"), "==", S("never")), M.cmp_(I("y"), "!=", I("x"))), R)], None), salt="s", splitters=["x"]),
             M.program("exp", M.if_([(M.cmp_(I("x"), "==", S("n1")), M.if_([(M.cmp_(I("x"), "==", S("n2")), R)], None))], M.if_([(M.cmp_(I("x"), "==", S("n3")), R)], None)))]
    for p in progs:
        fields = M.all_fields(p)
        envs = []
        for v in odd:
            if isinstance(v, (list, dict)) and "tags" not in fields and "x" in (p["splitters"] or []):
                continue
            env = {f: ("u1" if f == "uid" else v) for f in fields}
            try:
                refinterp.run(p, env)
            except TypeError:
                continue  # not type-compatible with this program (e.g. `"beta" in None`): outside the property
            envs.append(env)
        yield {"prog": p, "inputs": [M.enc_inputs(e) for e in envs if _encodable(e)], "shape": "unroutable"}


def _encodable(env):
    try:
        M.enc_inputs(env)
        return True
    except TypeError:
        return False


def deep_programs():
    """the stated maxima combined: 12 levels of nesting where every level is an else-if chain of 60 links, the next level
    sitting in the last else-if (or in the else) - one path runs through 720 links"""
    I, L = M.ident, M.lit_int
    for nest, chain, where in ((12, 60, "last"), (12, 60, "else"), (9, 60, "last"), (12, 45, "first")):
        body = M.ret([(M.lit_str("leaf"), "1"), (M.lit_str("leaf2"), "1")])
        for d in range(nest):
            f = "x%d" % d
            br = []
            for i in range(chain):
                inner = body if ((where == "last" and i == chain - 1) or (where == "first" and i == 0)) else M.ret([(M.lit_str("L%d_%d" % (d, i)), "1")])
                br.append((M.cmp_(I(f), "==", L(str(i))), inner))
            body = M.if_(br, body if where == "else" else (M.ret([(M.lit_str("E%d" % d), "1")]) if d % 2 else None))
        p = M.program("deep", body, salt="s", splitters=["uid"])
        hit = {"last": chain - 1, "else": chain, "first": 0}[where]
        envs = [dict({"x%d" % d: hit for d in range(nest)}, uid="u%d" % j) for j in range(2)]
        envs.append(dict({"x%d" % d: (hit if d > 3 else 5) for d in range(nest)}, uid="u1"))
        envs.append(dict({"x%d" % d: (hit if d > nest - 2 else chain + 7) for d in range(nest)}, uid="u1"))
        yield {"prog": p, "inputs": [M.enc_inputs(e) for e in envs], "shape": "deep-%dx%d-%s" % (nest, chain, where)}


def selftest():
    refgrammar.selftest()


def run(ctx, rec):
    if ctx.shard == 0:
        kids = known_ids()
        still = []
        for probe in k1_probes():
            v = judge(probe)
            rec.count("k1_probe")
            if v["viol"]:
                if known_filter(probe, v["viol"]):
                    still.append(sorted((set(M.all_fields(probe["prog"])) & kids) or {probe["prog"]["name"]})[0])
                else:
                    rec.violation("k1-probe", probe, v["viol"])
                    return
        if still:
            rec.known_finding("K1", "identifiers that are Python reserved words or helper names of the generated code do not "
                              "compile / evaluate (still failing for: %s)" % ", ".join(sorted(set(still))))
    if ctx.shard == 0:
        runner.direct_run(ctx, rec, "fixed-shapes", fixed_programs(), judge, known_filter=known_filter)
        if rec.violations:
            return
        runner.direct_run(ctx, rec, "unroutable-inputs-of-every-shape", unroutable_programs(), judge, known_filter=known_filter)
        if rec.violations:
            return
        runner.direct_run(ctx, rec, "combined-maximum-shapes", deep_programs(), judge, known_filter=known_filter)
        if rec.violations:
            return
    runner.hyp_run(ctx, rec, "typed-programs", cases(), judge, ctx.n(500, 3000), known_filter=known_filter)
    if rec.violations:
        return
    runner.hyp_run(ctx, rec, "large-shapes", gen.big_programs(pool=POOL), judge, ctx.n(60, 400), known_filter=known_filter)
    if rec.violations or ctx.quick:
        return
    from . import c06

    st_ = c06.run_atheris(ctx, rec, 30000)
    if st_ and st_["accepted_not_compiling"]:
        case = {"text": st_["accepted_not_compiling"]["text"]}
        v = judge_text(case)
        if v["viol"]:
            rec.violation("atheris-accepted", case, v["viol"])
