"""C03 - weights partition the hash space exactly, in declared order."""
import itertools

from hypothesis import strategies as st

from .. import gen, refbucket, runner, sut
from .. import model as M

ID = "C03"
RULE = ("Weight vectors (1-64 groups, ints and decimals 1e-9..1e9 as source text, zeros anywhere, never all zero, labels unique or repeated across slices (incl. 1 vs 1.0); "
        "plus every vector over {0,1,2,3} of length<=4) evaluated at grid points k in {0, 2^32-1, ceil(boundary)+{-2..2}, "
        "random}. Path A substitutes the hash position from outside (with a canary) and calls both deterministic_choice "
        "and a compiled single-return experiment; path B locates the grid point of real unit ids black-box by bisection "
        "over dyadic two-group ramps through the DSL, then demands the exact partition at boundaries k, k+1, k-1/2, k+1/2 "
        "and on generated vectors. Oracle: exact rational partition [sum w_<i, sum w_<=i) of the 2^32 grid. Non-trivial = "
        ">=2 positive weights evaluated within 2 grid points of a boundary, or a vector containing a zero weight; "
        "distinct by (vector, k).")
RULE += (' Since rounds 6-7: zero-padded weight spellings, uneven shares written only in 1e-9 units.')
RULE += (' Since rounds 14-15: weights passed as one-shot iterables.')
ASSUMPTIONS = [
    "within 1e-12*total of a boundary (0.0043 grid points) either neighbour is accepted unless the double arithmetic is "
    "provably exact for that vector and grid point (then equality is demanded); such cases are counted as ambiguity-zone",
    "path A relies on pyab_experiment.binning.binning.deterministic_proba being consulted; if a refactoring bypasses it "
    "the canary reports path A as unavailable (never as a violation) and path B still decides",
    "path B assumes only that a unit has ONE position on a 2^32 grid that is monotone in the ramp (no MD5 assumption)",
]
SHARDS = {"quick": 1, "thorough": 16}

GRID = refbucket.GRID
UNAVAILABLE = {"flag": False}


_BUF = []


class _Subst:
    """replace the hash position from outside, with a canary counting consultations"""

    def __init__(self, k):
        self.k = k
        self.calls = 0

    def __enter__(self):
        self.mod = sut.binning()
        self.orig = self.mod.deterministic_proba

        def fake(*_args, _self=self, **_kwargs):  # whatever signature the real function has (now or after a refactoring)
            _self.calls += 1
            return _self.k / GRID

        self.mod.deterministic_proba = fake
        return self

    def __exit__(self, *a):
        self.mod.deterministic_proba = self.orig


def _labels(n):
    return ["L%d" % i for i in range(n)]


def _positions(ws, extra):
    ks = {0, GRID - 1}
    for b in refbucket.boundaries(ws):
        for d in (-2, -1, 0, 1, 2):
            if 0 <= b + d < GRID:
                ks.add(b + d)
    ks.update(extra)
    return sorted(ks)


def _nontrivial(ws, k):
    pos = sum(1 for w in ws if float(w) > 0)
    if any(float(w) == 0 for w in ws) and len(ws) > 1:
        return True
    if pos < 2:
        return False
    return any(abs(b - k) <= 2 for b in refbucket.boundaries(ws))


def judge_a(case):
    """case: {"ws": [...], "ks": [...], "via": "direct"|"dsl"|"cum"}"""
    ws = case["ws"]
    labels = [M.dec(x) for x in case["labels"]] if case.get("labels") else _labels(len(ws))
    viol = []
    tags = ["pathA:" + case["via"], "groups:%s" % ("1" if len(ws) == 1 else "2-8" if len(ws) <= 8 else "9-64")]
    if any(float(w) == 0 for w in ws):
        tags.append("has-zero-weight")
    if any("." in w for w in ws):
        tags.append("decimal-weights")
    nt = False
    ev = None
    if case["via"] == "ast-reuse":
        # ONE parsed AST rendered again and again (generate() twice on one generator, then another generator / the other layout
        # on the same AST): rendering must leave the AST alone, so the last rendering still partitions exactly
        prog = M.program("e", M.ret([(M.lit_of(l), w) for l, w in zip(labels, ws)]), splitters=["uid"])
        try:
            ast_ = sut.wrappers().parse_source(M.render(prog))
            G = sut.codegen().PythonCodeGen
            g1 = G(ast_)
            g1.generate()
            g1.generate()
            G(ast_, expose_experiment_variant_function=True).generate()
            code = G(ast_).generate()
            ns = {}
            exec(compile(code, "<rendered-again>", "exec"), ns)
            ev = ns["e"]
        except Exception as e:
            return {"viol": ["rendering one AST repeatedly failed: %s: %s | %s" % (type(e).__name__, e, M.render(prog))], "tags": tags}
    if case["via"] == "dsl":
        prog = M.program("e", M.ret([(M.lit_of(l), w) for l, w in zip(labels, ws)]), splitters=["uid"])
        if case.get("noise"):
            sut.compile_text(case["noise"])  # somebody's rejected text right before (outcome irrelevant)
            tags.append("after-a-rejected-text")
        import warnings

        with warnings.catch_warnings():
            # a host that runs with warnings as errors (python -W error, pytest -W error): a legal weight vector (zeros
            # anywhere, huge next to tiny) is no reason for a warning, so it must compile there as well
            warnings.simplefilter("error")
            res = sut.compile_text(M.render(prog))
        if res[0] != "ok":
            return {"viol": ["does not compile: %s %s | %s" % (res[1], res[2], M.render(prog))], "tags": tags}
        ev = res[1]
    if case.get("labels"):
        tags.append("repeated-labels")
    nums = [float(w) if "." in w else int(w) for w in ws]
    for k in case["ks"]:
        idx, ok, zone = refbucket.select(ws, k)
        with _Subst(k) as sub:
            try:
                if ev is not None:
                    got = ev(uid="unit")
                elif case["via"] == "cum":
                    got = sut.binning().deterministic_choice("unit", labels, cum_weights=list(itertools.accumulate(nums)))
                elif case["via"] == "iter":
                    # weights as a one-shot iterable (a generator / map object), accepted like random.choices accepts them
                    got = sut.binning().deterministic_choice("unit", labels, weights=(w for w in nums) if k % 2 else map(lambda w: w, nums))
                else:
                    _BUF[:] = nums  # one list object, edited in place from case to case, as a long-lived caller would
                    got = sut.binning().deterministic_choice("unit", labels, weights=_BUF)
            except Exception as e:
                viol.append("raised %s: %s for weights %r at k=%d" % (type(e).__name__, e, ws, k))
                continue
        if sub.calls != 1:
            # the substituted position was not consulted (exactly once): path A cannot judge this call.  Fall back to real
            # unit ids whose grid point was located black-box (path B machinery), so the vector is still decided.
            UNAVAILABLE["flag"] = True
            return _judge_with_located_ids(case, labels, tags)
        if zone:
            tags.append("ambiguity-zone")
        if _nontrivial(ws, k):
            nt = True
        if not any(sut.same_value(got, labels[i]) for i in ok):
            viol.append("weights %r at grid point %d (u=%r): partition selects index %s (%s), implementation returned %r"
                        % (ws, k, k / GRID, sorted(ok), "exact" if not zone else "zone", got))
    return {"viol": viol, "nontrivial": nt, "tags": sorted(set(tags)), "key": [ws, case["ks"], case["via"]],
            "sample": {"weights": ws[:12], "grid_points": case["ks"][:8], "via": case["via"]}}


_LOCATED = []


def _located_ids():
    if not _LOCATED:
        for uid in FROZEN_IDS + ["u-1", "u-2", 12345, "customer-77", 3.5]:
            k, problem = locate(uid, None)
            if problem is None:
                _LOCATED.append((uid, k))
    return _LOCATED


_LOCATED_DIRECT = []


def _locate_direct(key):
    """grid point of an id string for the public choice function itself, located with float two-group ramps"""
    dc = sut.binning().deterministic_choice

    def in_lo(j):
        return dc(key, ["lo", "hi"], weights=[j / 8.0, (GRID - j) / 8.0]) == "lo"
    if in_lo(0) or not in_lo(GRID):
        return None
    lo, hi = 0, GRID
    while hi - lo > 1:
        mid = (lo + hi) // 2
        if in_lo(mid):
            hi = mid
        else:
            lo = mid
    return hi - 1


def _located_direct():
    if not _LOCATED_DIRECT:
        for key in FROZEN_IDS + ["u-1", "u-2", "12345", "customer-77", "", "é"]:
            k = _locate_direct(key)
            if k is not None:
                _LOCATED_DIRECT.append((key, k))
    return _LOCATED_DIRECT


def _judge_with_located_ids(case, labels, tags):
    ws = case["ws"]
    viol = []
    direct = case["via"] != "dsl"
    if direct:
        nums = [float(w) if "." in w else int(w) for w in ws]
        dc = sut.binning().deterministic_choice
        pairs = _located_direct()
    else:
        prog = M.program("e", M.ret([(M.lit_of(l), w) for l, w in zip(labels, ws)]), splitters=["uid"])
        res = sut.compile_text(M.render(prog))
        if res[0] != "ok":
            return {"viol": ["does not compile: %s %s | %s" % (res[1], res[2], M.render(prog))], "tags": tags}
        pairs = _located_ids()
    for uid, k in pairs:
        idx, ok, zone = refbucket.select(ws, k)
        if direct:
            try:
                if case["via"] == "cum":
                    act = ("group", dc(uid, labels, cum_weights=list(itertools.accumulate(nums))))
                else:
                    act = ("group", dc(uid, labels, weights=nums))
            except Exception as e:
                act = ("error", type(e).__name__, str(e))
        else:
            act = sut.call(res[1], {"uid": uid})
        if act[0] != "group" or not any(sut.same_value(act[1], labels[i]) for i in ok):
            viol.append("weights %r: unit %r was located (black-box, two-group ramps) at grid point %d where the partition selects "
                        "index %s, evaluator gave %r" % (ws, uid, k, sorted(ok), act[1:]))
    return {"viol": viol[:3], "nontrivial": len([w for w in ws if float(w) > 0]) >= 2, "tags": tags + ["pathA-canary->located-ids"],
            "key": [ws, "located"], "sample": {"weights": ws[:12], "via": "located real ids (path A canary tripped)"}}


# --------------------------------------------------------------------------- path B
def _ramp_text(num, den_shift):
    """exact decimal text of num / 2^den_shift (den_shift <= 4)"""
    q, r = divmod(num, 1 << den_shift)
    frac = r * (10 ** den_shift) // (1 << den_shift)
    return "%d.%0*d" % (q, den_shift, frac)


_EV_CACHE = {}


def _two_group(j16, salt):
    """evaluator with T = 2^29 and the boundary at grid coordinate j16/2 (j16 in half grid points)"""
    key = (j16, salt)
    ev = _EV_CACHE.get(key)
    if ev is None:
        w1 = _ramp_text(j16, 4)
        w2 = _ramp_text((1 << 33) - j16, 4)
        prog = M.program("ramp", M.ret([(M.lit_str("lo"), w1), (M.lit_str("hi"), w2)]), salt=salt, splitters=["uid"])
        res = sut.compile_text(M.render(prog))
        if res[0] != "ok":
            raise RuntimeError("ramp does not compile: %s %s" % res[1:])
        ev = res[1]
        if len(_EV_CACHE) > 4000:
            _EV_CACHE.clear()
        _EV_CACHE[key] = ev
    return ev


def _two_group_big(j16, salt):
    """T = 2^33 with INTEGER weights: the boundary sits at grid coordinate j16/2 exactly as in _two_group, but the total is
    above 2^32 (a position must not depend on the magnitude of the weights)"""
    key = ("big", j16, salt)
    ev = _EV_CACHE.get(key)
    if ev is None:
        prog = M.program("rampbig", M.ret([(M.lit_str("lo"), str(j16)), (M.lit_str("hi"), str((1 << 33) - j16))]), salt=salt, splitters=["uid"])
        res = sut.compile_text(M.render(prog))
        if res[0] != "ok":
            raise RuntimeError("ramp does not compile: %s %s" % res[1:])
        ev = res[1]
        _EV_CACHE[key] = ev
    return ev


def locate(uid, salt=None):
    """black-box: smallest j with unit in group 'lo' when the boundary sits at grid point j; k = j - 1"""
    def in_lo(j):
        return _two_group(2 * j, salt)(uid=uid) == "lo"
    if in_lo(0):
        return None, "unit is in the zero-weight group at boundary 0"
    if not in_lo(GRID):
        return None, "unit is in the zero-weight group at boundary 2^32"
    lo, hi = 0, GRID  # in_lo(lo) False, in_lo(hi) True
    while hi - lo > 1:
        mid = (lo + hi) // 2
        if in_lo(mid):
            hi = mid
        else:
            lo = mid
    return hi - 1, None


def judge_b(case):
    """case: {"uid": tagged value, "salt": str|None, "vectors": [[w,...],...]}"""
    uid = M.dec(case["uid"])
    salt = case.get("salt")
    viol = []
    tags = ["pathB", "pathB:id:" + type(uid).__name__]
    try:
        k, problem = locate(uid, salt)
    except Exception as e:
        return {"viol": ["path B: evaluation raised %s: %s for uid=%r" % (type(e).__name__, e, uid)], "tags": tags}
    if problem:
        return {"viol": ["path B: %s (uid=%r)" % (problem, uid)], "tags": tags}
    # (i) zero-tolerance boundary semantics: everything below is exact in doubles
    checks = [(2 * k, "hi", "boundary exactly at the unit's grid point k -> u*T == boundary -> later group"),
              (2 * k + 2, "lo", "boundary at k+1"),
              (2 * k + 1, "lo", "boundary at k+1/2"),
              (2 * k - 1, "hi", "boundary at k-1/2")]
    for j16, want, why in checks:
        if j16 < 0 or j16 > (1 << 33):
            continue
        got = _two_group(j16, salt)(uid=uid)
        if got != want:
            viol.append("path B: uid=%r located at grid point %d; %s must give %r, got %r" % (uid, k, why, want, got))
        if 0 < j16 < (1 << 33):
            got = _two_group_big(j16, salt)(uid=uid)
            if got != want:
                viol.append("path B: uid=%r located at grid point %d; %s must give %r also when the same shares are written with a "
                            "total of 2^33 (integer weights %d : %d), got %r" % (uid, k, why, want, j16, (1 << 33) - j16, got))
    if k == 0:
        tags.append("pathB:u=0")
    if k == GRID - 1:
        tags.append("pathB:top-grid-point")
    # monotone in the ramp
    for j in case.get("probe_js", []):
        want = "lo" if k < j else "hi"
        got = _two_group(2 * j, salt)(uid=uid)
        if got != want:
            viol.append("path B: uid=%r at k=%d, boundary at %d must give %r, got %r" % (uid, k, j, want, got))
    # (ii) generated vectors at the located k
    nt = False
    for ws in case["vectors"]:
        labels = _labels(len(ws))
        prog = M.program("vec", M.ret([(M.lit_str(l), w) for l, w in zip(labels, ws)]), salt=salt, splitters=["uid"])
        res = sut.compile_text(M.render(prog))
        if res[0] != "ok":
            viol.append("does not compile: %s %s | %s" % (res[1], res[2], M.render(prog)))
            continue
        idx, ok, zone = refbucket.select(ws, k)
        act = sut.call(res[1], {"uid": uid})
        if zone:
            tags.append("ambiguity-zone")
        if len([w for w in ws if float(w) > 0]) >= 2 or any(float(w) == 0 for w in ws):
            nt = True
        if act[0] != "group" or act[1] not in [labels[i] for i in ok]:
            viol.append("path B: uid=%r at located grid point %d, weights %r: partition selects %s, evaluator gave %r"
                        % (uid, k, ws, sorted(ok), act[1:]))
    return {"viol": viol, "nontrivial": nt or True, "tags": sorted(set(tags)), "key": ["B", case["uid"], salt, case["vectors"]],
            "sample": {"uid": uid, "located_grid_point": k, "vectors": [w[:8] for w in case["vectors"][:2]]}}


def judge(case):
    return judge_b(case) if "uid" in case else judge_a(case)


def judge_case(record):
    return judge(record["case"])["viol"]


# --------------------------------------------------------------------------- strategies
@st.composite
def cases_a(draw):
    n = draw(st.one_of(st.integers(1, 8), st.integers(1, 64)))
    kind = draw(st.sampled_from(["wide", "wide", "nice", "ints"]))
    ws = draw(gen.weight_vector(n, kind))
    extra = draw(st.lists(st.integers(0, GRID - 1), min_size=1, max_size=4))
    ks = _positions(ws, extra)
    if len(ks) > 40:
        idxs = draw(st.lists(st.integers(0, len(ks) - 1), min_size=30, max_size=30))
        ks = sorted({ks[i] for i in idxs} | {0, GRID - 1})
    case = {"ws": ws, "ks": ks, "via": draw(st.sampled_from(["direct", "dsl", "dsl", "cum", "iter"]))}
    if n >= 2 and draw(st.integers(0, 3)) == 0:
        # the same label on several slices (its share is the sum of its slices, each slice stays where it was declared),
        # incl. labels that are ==-equal but of different type (1 and 1.0)
        pool = draw(st.sampled_from([["A", "B"], ["A", "B", "C"], [1, 1.0, "1"], ["x", 0, 0.0], ["A"]]))
        case["labels"] = [M.enc(draw(st.sampled_from(pool))) for _ in range(n)]
    return case


FROZEN_IDS = ["unit-3373044025", "unit-5155129577", "unit-7940567911"]


@st.composite
def cases_b(draw):
    uid = draw(st.one_of(st.sampled_from(FROZEN_IDS), st.integers(0, 10 ** 7),
                         st.text(alphabet="abcdefghijklmnopqrstuvwxyz0123456789-", min_size=1, max_size=12),
                         st.floats(allow_nan=False, allow_infinity=False, width=32)))
    salt = draw(st.sampled_from([None, None, "s1", ""]))
    vectors = [draw(gen.weight_vector(draw(st.integers(2, 12)), draw(st.sampled_from(["wide", "nice", "ints", "ints"]))))
               for _ in range(draw(st.integers(1, 3)))]
    return {"uid": M.enc(uid), "salt": salt, "vectors": vectors,
            "probe_js": draw(st.lists(st.integers(0, GRID), min_size=1, max_size=3))}


# texts that are refused half-way through a return statement (after complete groups have been read) or elsewhere
REJECTED = ['def n { splitters: u return "old_a" weighted 5, "old_b" weighted }', 'def n { splitters: u return "old_a" weighted 5, "old_b" weighted 7, }',
            'def n { splitters: u if u == 1 { return "x" weighted 1, "y" weighted 2 } else { return "z" weighted 3 ', 'def n { return "a" weighted 1 ;',
            'def n { splitters: u return "a" weighted 1, "b" weighted 0.5 @']


def small_vectors():
    for n in range(1, 5):
        for ws in itertools.product("0123", repeat=n):
            if all(w == "0" for w in ws):
                continue
            ws = list(ws)
            yield {"ws": ws, "ks": _positions(ws, [1, GRID // 2, GRID // 3]), "via": "direct"}
            yield {"ws": ws, "ks": _positions(ws, [2, GRID // 2]), "via": "iter"}
            if n <= 3:
                yield {"ws": ws, "ks": _positions(ws, []), "via": "dsl"}
            if n == 3 and ws[0] != ws[2]:
                yield {"ws": ws, "ks": _positions(ws, []), "via": "ast-reuse"}
                yield {"ws": ws, "ks": _positions(ws, []), "via": "dsl", "noise": REJECTED[(int(ws[0]) * 4 + int(ws[1]) + int(ws[2])) % len(REJECTED)]}


def edge_magnitude_vectors():
    """the smallest and largest expressible weights, alone and next to zeros (totals of 1e-9 .. 6.4e10)"""
    for ws in (["0.000000001"], ["0", "0.000000001", "0"], ["0.000000001", "0.000000001"], ["0.000000001", "0", "0.000000002"],
               ["1000000000"] * 64, ["1000000000", "0.000000001"], ["0.000000001", "1000000000"], ["10.0", "1"], ["20.0", "250.00", "1000000000.0"],
               ["100", "1.0", "10.50"], ["4294967296", "1"], ["8589934592", "8589934592"], ["3.0", "2.00", "105.0"],
               # uneven shares written with the smallest expressible weights only (all within 1e-8 of each other in absolute terms)
               ["0.000000001", "0.000000002"], ["0.000000001", "0.000000009"], ["0.000000003", "0.000000001", "0.000000002"],
               ["0.000000009", "0.000000001", "0", "0.000000005"], ["0.00000001", "0.00000003"], ["0.0000001", "0.0000001", "0.0000002"],
               # totals a hair off a round number (probabilities that do not quite add up to 1 / 100), with a zero or tiny last group
               ["0.5", "0.49999999901", "0"], ["0.5", "0.4999999995", "0.000000001"], ["0.5", "0.499999999"], ["0.5", "0.500000001", "0"],
               ["0.3", "0.3", "0.399999999", "0"], ["0.999999999", "0"], ["1.000000001", "0.000000001"], ["0.1", "0.2", "0.7", "0"],
               ["50", "49.9999999", "0"], ["99.9999999", "0.00000005", "0"], ["0.33333333", "0.33333333", "0.33333333", "0"]):
        for via in ("direct", "dsl"):
            yield {"ws": ws, "ks": _positions(ws, [1, GRID // 2, GRID - 2]), "via": via}


def repeated_label_vectors():
    for ws, labels in [(["1", "1", "1"], ["A", "B", "A"]), (["2", "1", "1", "2"], ["c", "t", "h", "t"]), (["1", "1"], [1, 1.0]),
                       (["1", "2", "3"], ["A", "A", "B"]), (["1", "0", "1"], ["A", "B", "A"]), (["0.5", "1.5", "0.5"], [0, "z", 0.0])]:
        for via in ("direct", "dsl"):
            yield {"ws": ws, "ks": _positions(ws, [7, GRID // 2, GRID // 3, GRID - 5]), "via": via, "labels": [M.enc(l) for l in labels]}


def selftest():
    refbucket.selftest()
    assert _ramp_text(5, 4) == "0.3125" and _ramp_text(1 << 33, 4) == "536870912.0000"
    assert float(_ramp_text((1 << 33) - 7, 4)) * 16 == (1 << 33) - 7


def run(ctx, rec):
    if ctx.shard == 0:
        runner.direct_run(ctx, rec, "small-vectors", small_vectors(), judge_a)
        if rec.violations:
            return
        runner.direct_run(ctx, rec, "repeated-labels", repeated_label_vectors(), judge_a)
        if rec.violations:
            return
        runner.direct_run(ctx, rec, "edge-magnitudes", edge_magnitude_vectors(), judge_a)
        if rec.violations:
            return
        frozen = [{"uid": M.enc(u), "salt": None, "vectors": [["1", "1"], ["0", "1", "2.5"], ["3", "0", "0", "1"]],
                   "probe_js": [1, GRID - 1]} for u in FROZEN_IDS]
        runner.direct_run(ctx, rec, "frozen-extreme-ids", frozen, judge_b)
        if rec.violations:
            return
    if ctx.shard == 0:
        # the same partition under a perturbed ambient environment: a lowered decimal precision, warnings turned into errors
        import decimal
        import warnings

        amb = [{"ws": ws, "ks": _positions(ws, [GRID // 3]), "via": via}
               for ws in (["1000000", "4", "1000000", "4"], ["0.3333333", "0.3333333", "0.3333334"], ["1", "2", "3"], ["0.1", "0.2", "0.7"],
                          ["123456789", "1", "987654321"], ["0.000001", "1", "0.999999"]) for via in ("direct", "dsl")]
        with decimal.localcontext() as dctx:
            dctx.prec = 6
            with warnings.catch_warnings():
                warnings.simplefilter("error")
                runner.direct_run(ctx, rec, "ambient-decimal-precision-6", amb, judge_a)
        if rec.violations:
            return
    runner.hyp_run(ctx, rec, "pathA", cases_a(), judge_a, ctx.n(300, 2500))
    if rec.violations:
        return
    runner.hyp_run(ctx, rec, "pathB", cases_b(), judge_b, ctx.n(40, 250))
    if UNAVAILABLE["flag"]:
        rec.note("path A unavailable: the substituted hash position was not consulted exactly once per call (canary)")
