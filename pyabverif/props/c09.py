"""C09 - assignment depends only on salt, splitter values and the routed branch."""
import itertools

from hypothesis import strategies as st

from .. import common, gen, refinterp, runner, sut
from .. import model as M

ID = "C09"
RULE = ("Generated programs with >=1 splitter and conditions (half of them with hostile strings / salts such as {field} templates); for every input the result is compared across metamorphic "
        "twins: extra unused keyword arguments, renamed experiment (incl. names of the generated code's helpers), permuted splitter declaration, permuted argument order, "
        "changed non-splitter condition values that keep the route (route decided by the reference interpreter) -> identical; "
        "one declared/used field missing -> an exception, never a group. Separate constructed cases: 200 distinct splitter "
        "values on a statement whose two largest shares are >=10% must hit >=2 groups; two different salts over 64 units x "
        ">=4 groups must give different assignment vectors. Non-trivial = twin pair whose routed statement has >=2 positive "
        "groups; distinct by (program text, inputs).")
RULE += (' Since round 7: a missing field among 15 unrelated extra arguments.')
RULE += (' Since rounds 14-15: callable-valued extras and extras named almost like a field; long salts differing only in tail / head / middle.')
ASSUMPTIONS = [
    "a missing condition field must raise only when the reference interpreter needs its value on the evaluated path "
    "(short-circuit order of and/or as in Python); a missing splitter field must always raise",
    "'different salts' excludes the pair absent/empty, which the published scheme maps to the same key",
    "probabilistic inequalities have false-alarm probability < 1e-9 per case (0.9^200, 4^-64)",
]
SHARDS = {"quick": 1, "thorough": 16}


def _lookalikes(classes):
    """extra keyword names that merely LOOK like declared fields (stray blanks, other letter case, a suffix)"""
    out = []
    for f in list(classes)[:3]:
        out += [f + " ", " " + f, "\t" + f, f.upper() if f.upper() != f else f.lower(), f + "_", f + "2"]
    return [n for n in out if n not in classes]


@st.composite
def cases(draw):
    sk = draw(gen.programs(min_splitters=1, max_splitters=draw(st.sampled_from([3, 3, 6])), conditional=True, max_groups=4,
                           tricky=draw(st.booleans()), pool=gen.PLAIN_POOL + ["alpha", "Beta", "gamma_1", "d", "ee", "zeta9"]))
    prog, classes = sk["prog"], sk["classes"]
    iv = gen.interesting_values(prog, classes)
    inputs, alts = [], []
    for _ in range(draw(st.integers(3, 6))):
        e1 = draw(gen.inputs_for(prog, classes, iv))
        e2 = draw(gen.inputs_for(prog, classes, iv))
        for s in prog["splitters"]:
            e2[s] = e1[s]
        inputs.append(M.enc_inputs(e1))
        alts.append(M.enc_inputs(e2))
    extra = {n: M.enc(draw(st.sampled_from(gen.ANY_POOL + [(1, 2), "uid", 99])))
             for n in draw(st.lists(st.sampled_from(_lookalikes(classes) + ["unused_1", "zz_extra", "debug", "Uid", "salt_", "name", "weights", "population", "input_id", "cum_weights", "k",
                                                     "salt", "splitters", "key", "args"]),
                                    max_size=3, unique=True)) if n not in classes}
    return {"prog": prog, "classes": classes, "inputs": inputs, "alts": alts, "extra": extra,
            "perm": draw(st.integers(0, 5)), "newname": draw(st.sampled_from(["renamed", "other_exp", "x9", "Exp", "partial", "deterministic_choice", "str", "map",
                                             "ExperimentConditionalFailedError", "kwargs", "index"]))}


def _compile(prog):
    res = sut.compile_text(M.render(prog))
    return res[1] if res[0] == "ok" else None, res


def _same(a, b):
    if a[0] != b[0]:
        return False
    if a[0] == "group":
        return sut.same_value(a[1], b[1])
    if a[0] == "error":
        return a[1] == b[1]
    return True


def judge(case):
    prog = case["prog"]
    text = M.render(prog)
    tags = common.shape_tags(prog)
    ev, res = _compile(prog)
    if ev is None:
        return {"viol": ["does not compile: %s %s | %s" % (res[1], res[2], text)], "tags": tags}
    renamed = dict(prog, name=case["newname"])
    ev_ren, res = _compile(renamed)
    sp = list(prog["splitters"])
    if len(sp) <= 4:
        perms = list(itertools.permutations(sp))
        permuted = dict(prog, splitters=list(perms[case["perm"] % len(perms)]))
    else:
        k = 1 + case["perm"] % (len(sp) - 1)
        permuted = dict(prog, splitters=(sp[k:] + sp[:k])[::-1] if case["perm"] % 2 else sp[k:] + sp[:k])
    ev_perm, res2 = _compile(permuted)
    viol = []
    if ev_ren is None or ev_perm is None:
        return {"viol": ["twin does not compile: %r %r" % (res, res2)], "tags": tags}
    rets = M.returns(prog["body"])
    nt = False
    extra = M.dec_inputs(case["extra"])
    # a second evaluator built from the very same text is another object with a life of its own: moving IT to another salt
    # (and back) has no say in what this one returns
    ev_same, _ = _compile(prog)
    if ev_same is not None and case["inputs"]:
        env0 = M.dec_inputs(case["inputs"][0])
        before = sut.call(ev, env0)
        try:
            ev_same.recompile(M.render(dict(prog, salt={"v": "another-salt", "q": '"'})))
            mid = sut.call(ev, env0)
            ev_same.recompile(M.render(dict(prog, name="moved_on", salt={"v": "s2", "q": '"'})))
        except Exception as e:
            mid = ("error", type(e).__name__, str(e)[:100])
        after = sut.call(ev, env0)
        if not (_same(before, mid) and _same(before, after)):
            viol.append("recompiling ANOTHER evaluator built from the same text changed this one's result: %r, then %r, then %r%s | %s | inputs=%r"
                        % (before[1:], mid[1:], after[1:], " (the two constructor calls returned one and the same object)" if ev_same is ev else "", text, env0))
            ev, _ = _compile(prog)
    for enc, enc_alt in zip(case["inputs"], case["alts"]):
        env = M.dec_inputs(enc)
        alt = M.dec_inputs(enc_alt)
        base = sut.call(ev, env)
        route = refinterp.run(prog, env)
        if route[0] == "return" and sum(1 for g in rets[route[1]]["groups"] if float(g["w"]) > 0) >= 2:
            nt = True
        if base[0] == "error":
            viol.append("evaluation raised %s: %s | %s | %r" % (base[1], base[2], text, env))
            continue
        # unrelated extras that are RECORDS (dicts / lists) whose names and keys spell declared fields: user={"id": ...} next to
        # user_id, fields={...}, kwargs={...} - still unrelated
        other = {k: "OTHER-%s" % k for k in env}
        records = {"fields": dict(other), "kwargs": dict(other), "record": dict(other), "defaults": dict(other), "context": [dict(other)]}
        for k in env:
            if "_" in k.strip("_"):
                a, b = k.split("_", 1)
                if a and a not in env:
                    records[a] = {b: "OTHER", "_" + b: "OTHER"}
        records = {k: v for k, v in records.items() if k not in M.all_fields(prog)}
        logrec = {k: "x" for k in ("name", "module", "message", "msg", "args", "process", "thread", "created", "filename", "lineno", "levelname", "exc_info", "stack_info", "extra")
                  if k not in M.all_fields(prog)}
        with common.ambient(debug_logging=True):
            with_debug = sut.call(ev, dict(env, **logrec))
        # extras whose values are callables (hooks a framework passes along): nobody calls what it was not asked to read;
        # extras named ALMOST like a declared field (user_ids next to user_id): still unrelated, still ignored
        callables = {k: v for k, v in _CALLABLES.items() if k not in M.all_fields(prog)}
        alike = {}
        for k in env:
            for n in (k + "s", "p" + k, k + "_", k[:-1] if len(k) > 2 else k + "x", k.upper() if k.upper() != k else k.lower(), k + "2", "_" + k):
                if n not in M.all_fields(prog) and n.isidentifier() and n not in gen.K1_NAMES and n != "self":
                    alike[n] = "OTHER-%s" % n
        twins = [
            ("callable-valued extra keyword arguments %r" % (sorted(callables),), sut.call(ev, dict(env, **callables))),
            ("extra keyword arguments named almost like the declared fields %r" % (sorted(alike),), sut.call(ev, dict(env, **alike))),
            ("extra keyword arguments named like log-record attributes %r, DEBUG logging on" % (sorted(logrec),), with_debug),
            ("extra keyword arguments %r" % (extra,), sut.call(ev, dict(env, **extra))),
            ("record-valued extra keyword arguments %r (after the fields)" % (sorted(records),), sut.call(ev, dict(env, **records))),
            ("record-valued extra keyword arguments %r (before the fields)" % (sorted(records),), sut.call(ev, dict(records, **env))),
            ("experiment renamed to %s" % case["newname"], sut.call(ev_ren, env)),
            ("splitters declared as %r" % (permuted["splitters"],), sut.call(ev_perm, env)),
            ("arguments passed in reverse order", sut.call(ev, dict(reversed(list(env.items()))))),
            ("splitters declared in reverse order", sut.call(_compile(dict(prog, splitters=sp[::-1]))[0], env)),
        ]
        if extra:
            tags.append("twin:extra-kwargs")
        if len(sp) > 1 and permuted["splitters"] != sp:
            tags.append("twin:permuted-splitters")
        if refinterp.run(prog, alt) == route:
            if alt != env:
                tags.append("twin:condition-values-changed-same-route")
            twins.append(("condition fields changed to %r (same route)" % ({k: v for k, v in alt.items() if k not in sp},),
                          sut.call(ev, alt)))
        for what, got in twins:
            if not _same(base, got):
                viol.append("result changed from %r to %r with %s | %s | inputs=%r" % (base[1:], got[1:], what, text, env))
        # a missing field is an error, never a default
        for f in M.all_fields(prog):
            env_m = {k: v for k, v in env.items() if k != f}
            needed = f in sp
            if not needed:
                try:
                    refinterp.run(prog, env_m)
                except refinterp.MissingField:
                    needed = True
            if not needed:
                continue
            got = sut.call(ev, env_m)
            tags.append("missing-field")
            if got[0] != "error":
                viol.append("field %r missing but evaluation returned %r instead of raising | %s | inputs=%r" % (f, got, text, env_m))
            # ... no matter how much unrelated context the caller passes along with the incomplete call
            many = dict(env_m, **{"ctx_%d" % i: i for i in range(12)})
            many.update({k: v for k, v in {f + "_": 1, f.upper() if f.upper() != f else f + "X": 2, "_" + f: 3}.items()
                         if k not in M.all_fields(prog)})
            got = sut.call(ev, many)
            tags.append("missing-field-among-many-extras")
            if got[0] != "error":
                viol.append("field %r missing (15 unrelated extra arguments given) but evaluation returned %r instead of raising | %s | inputs=%r"
                            % (f, got, text, many))
    return {"viol": viol[:6], "nontrivial": nt, "tags": sorted(set(tags)), "key": [text, case["inputs"]],
            "sample": {"text": text[:300], "inputs": [M.dec_inputs(e) for e in case["inputs"][:2]], "extra": extra}}


# --------------------------------------------------------------------------- the converse: it does vary
@st.composite
def vary_cases(draw):
    ng = draw(st.integers(4, 8))
    ws = [str(draw(st.integers(1, 3))) for _ in range(ng)]
    if draw(st.integers(0, 2)) == 0:
        # salts that differ only in their blanks / letter case / normal form / after a comment look-alike
        salts = list(draw(st.sampled_from([("a b", "a  b"), ("a b", "a\tb"), ("x ", "x  "), ("checkout v2", "checkout  v2"), (" s", "s"),
                                           ("s", "s "), ("Exp", "exp"), ("\u00e9", "e\u0301"), ("\u2126", "\u03a9"), ("u//1", "u//2"), ("q", "q'"), ("ﬁ", "fi"),
                                           ("p /* 1 */", "p /* 2 */"), ("x" * 70 + "_v1", "x" * 70 + "_v2"),
                                           ("a-long-descriptive-salt-for-the-spring-campaign-landing-page-experiment-A", "a-long-descriptive-salt-for-the-spring-campaign-landing-page-experiment-B"),
                                           ("007", "7"), ("1.50", "1.5"), ("1e3", "1000.0"),
                                           ("wave-7", "wave-7\x00"), ("", "\x00"), ("a\x00", "a\x00\x00"), ("s", "s\x00\x00\x00"), ("k", "k" + "\x00" * 64)])))
    else:
        salts = draw(st.lists(st.sampled_from(["a", "b", "s1", "s2", "exp", "exp2", "A", " a", "a ", "é", "v1", "v2", "1", "2"]),
                              min_size=2, max_size=2, unique=True))
    field = draw(st.sampled_from(["uid", "user_id", "k9"]))
    base = draw(st.integers(0, 10 ** 6))
    kind = draw(st.sampled_from(["int", "str", "padded", "decimal", "fraction", "bigint"]))
    return {"ws": ws, "salts": salts, "field": field, "base": base, "kind": kind,
            "cond": draw(st.booleans())}


def _units(case, n):
    b = case["base"]
    if case["kind"] == "int":
        return [b + i for i in range(n)]
    if case["kind"] == "str":
        return ["user-%d" % (b + i) for i in range(n)]
    if case["kind"] == "decimal":
        import decimal

        return [decimal.Decimal(10 ** 20 + b + i) for i in range(n)]  # NUMERIC(21,0) ids: distinct, though all the same double
    if case["kind"] == "fraction":
        import fractions

        return [fractions.Fraction(10 ** 20 + b + i, 1) for i in range(n)]
    if case["kind"] == "bigint":
        return [2 ** 62 + b + i for i in range(n)]
    return ["%010d" % (b + i) for i in range(n)]


def _never_call_me(*a, **k):
    raise RuntimeError("an unrelated extra argument was called")


class _NeedsArgument:
    def __init__(self, required):
        self.required = required


_CALLABLES = {"on_assign": lambda group: None, "hook": len, "factory": _NeedsArgument, "lazy": _never_call_me, "callback": print.__class__, "resolver": _never_call_me}


def judge_vary(case):
    ws, f = case["ws"], case["field"]
    if case["salts"][0] == case["salts"][1]:
        raise runner.HarnessError("generator produced two identical salts: %r" % (case["salts"],))
    body = M.ret([(M.lit_str("g%d" % j), w) for j, w in enumerate(ws)])
    if case["cond"]:
        body = M.if_([(M.cmp_(M.ident("plan"), "==", M.lit_str("pro")), body)], M.ret([(M.lit_str("other"), "1")]))
    vecs = []
    viol = []
    for salt in case["salts"]:
        ev, res = _compile(M.program("vary", body, salt=salt, splitters=[f]))
        if ev is None:
            return {"viol": ["does not compile: %r" % (res,)], "tags": ["vary"]}
        vec = [sut.call(ev, {f: u, "plan": "pro"}) for u in _units(case, 200)]
        bad = [v for v in vec if v[0] != "group"]
        if bad:
            return {"viol": ["evaluation failed: %r" % (bad[0],)], "tags": ["vary"]}
        vecs.append([v[1] for v in vec])
        if len(set(vecs[-1])) < 2:
            viol.append("200 distinct values of splitter %r all land in group %r (weights %r, salt %r): result does not vary "
                        "with the splitter value" % (f, vecs[-1][0], ws, salt))
    # every declared splitter matters: vary each of two splitters separately
    ev2, res = _compile(M.program("vary2", body, salt=case["salts"][0], splitters=[f, "second_id"]))
    if ev2 is None:
        return {"viol": ["does not compile: %r" % (res,)], "tags": ["vary"]}
    us = _units(case, 200)
    for which in (0, 1):
        got = [sut.call(ev2, {f: (u if which == 0 else us[0]), "second_id": (u if which == 1 else us[0]), "plan": "pro"}) for u in us]
        if any(g[0] != "group" for g in got):
            return {"viol": ["evaluation failed: %r" % ([g for g in got if g[0] != "group"][0],)], "tags": ["vary"]}
        if len({g[1] for g in got}) < 2:
            viol.append("200 distinct values of splitter #%d of (%s, second_id) all land in one group: it does not influence "
                        "the assignment" % (which, f))
    if vecs[0][:64] == vecs[1][:64]:
        viol.append("salts %r and %r give identical assignments for 64 units over %d groups: result does not vary with the salt"
                    % (case["salts"][0], case["salts"][1], len(ws)))
    return {"viol": viol, "nontrivial": True, "tags": ["vary"], "key": case, "sample": case}


def judge_case(record):
    c = record["case"]
    return (judge_vary(c) if "salts" in c else judge(c))["viol"]


def k1_probe(rec):
    ids = set()
    for k in runner.known_for("C09"):
        ids |= set(k.get("identifiers", []))
    n = "choose_experiment_variant"
    body = M.ret([(M.lit_str("g%d" % j), "1") for j in range(16)])
    ev, res = _compile(M.program("exp", body, splitters=[n]))
    if ev is None:
        return True
    got = {repr(sut.call(ev, {n: "user-%d" % i})) for i in range(200)}
    if len(got) < 2:
        if n in ids:
            rec.known_finding("K1", "a splitter named choose_experiment_variant is shadowed by the generated helper: 200 distinct "
                              "values land in one group (still failing)")
            return True
        rec.violation("k1-probe", {"prog": M.program("exp", body, splitters=[n]), "inputs": []},
                      ["200 distinct values of splitter %s land in one group" % n])
        return False
    return True


def fixed_twins():
    """falsy / empty splitter values under no salt and an empty salt: the key is the empty string or prints like nothing"""
    for salt in (None, "", "s"):
        body = M.if_([(M.cmp_(M.ident("plan"), "==", M.lit_str("pro")), M.ret([(M.lit_str("p%d" % j), "1") for j in range(8)]))],
                     M.ret([(M.lit_str("f%d" % j), "1") for j in range(8)]))
        prog = M.program("exp", body, salt=salt, splitters=["uid"])
        classes = {"uid": "any", "plan": "str"}
        vals = ["", "", "", 0, None, False, " ", "0"]
        inputs = [M.enc_inputs({"uid": v, "plan": p}) for v in vals for p in ("pro", "free")]
        alts = [M.enc_inputs({"uid": v, "plan": p}) for v in vals for p in ("pro", "basic")]
        yield {"prog": prog, "classes": classes, "inputs": inputs, "alts": alts, "extra": {"unused_1": M.enc("x")}, "perm": 0,
               "newname": "renamed"}
    # negated ordering tests: a missing number (NaN) takes the same route as a high score under `not score < 0.5` (every ordering
    # test on NaN is false), so it must get the same group
    I, F = M.ident, M.lit_float
    G = lambda p: M.ret([(M.lit_str("%s%d" % (p, j)), "1") for j in range(8)])  # noqa: E731
    for pred in (M.not_(M.cmp_(I("score"), "<", F("0.5"))), M.not_(M.cmp_(I("score"), ">=", F("0.5")), 1), M.not_(M.cmp_(F("0.5"), "<=", I("score"))),
                 M.and_(M.not_(M.cmp_(I("score"), ">", F("0.5"))), M.not_(M.cmp_(I("score"), "<=", F("0.5"))))):
        prog = M.program("exp", M.if_([(pred, G("t"))], G("e")), salt="s", splitters=["uid"])
        nan = float("nan")
        rows = [(0.9, nan), (0.1, nan), (nan, 0.9), (nan, 0.1), (nan, float("inf")), (0.5, nan), (nan, float("-inf"))]
        inputs = [M.enc_inputs({"uid": "u%d" % j, "score": a}) for j in range(6) for a, _ in rows]
        alts = [M.enc_inputs({"uid": "u%d" % j, "score": b}) for j in range(6) for _, b in rows]
        yield {"prog": prog, "classes": {"uid": "any", "score": "num"}, "inputs": inputs, "alts": alts, "extra": {}, "perm": 0, "newname": "renamed"}
    # a guard in front of the tests it protects: with kind != "num" the value is never looked at (and / or stop at the first
    # verdict), so a word where a number is expected changes nothing
    S, L = M.lit_str, M.lit_int
    num = M.cmp_(I("kind"), "==", S("num"))
    gt, lt = M.cmp_(I("value"), ">", L("5")), M.cmp_(I("value"), "<", L("100"))
    for pred in (M.and_(M.and_(num, gt), lt), M.and_(num, M.and_(gt, lt)), M.or_(M.or_(M.not_(num), gt), lt)):
        prog = M.program("exp", M.if_([(pred, G("t"))], G("e")), salt="s", splitters=["uid"])
        rows = [(("text", 50), ("text", "silver")), (("", 6), ("", None)), (("text", 500), ("other", (1, 2))), (("num", 50), ("num", 60))]
        inputs = [M.enc_inputs({"uid": "u%d" % j, "kind": a[0], "value": a[1]}) for j in range(6) for a, _ in rows]
        alts = [M.enc_inputs({"uid": "u%d" % j, "kind": b[0], "value": b[1]}) for j in range(6) for _, b in rows]
        yield {"prog": prog, "classes": {"uid": "any", "kind": "str", "value": "num"}, "inputs": inputs, "alts": alts, "extra": {}, "perm": 0, "newname": "renamed"}
    # links that are never reached are never evaluated, even when the same test occurs in several of them: a call routed by the
    # first link does not look at `age` at all
    adult = M.cmp_(I("age"), ">=", L("18"))
    prog = M.program("exp", M.if_([(M.cmp_(I("plan"), "==", S("pro")), G("t")), (adult, G("a")), (M.and_(adult, M.cmp_(I("age"), "<", L("65"))), G("b")),
                                   (M.or_(M.cmp_(I("age"), "<", L("65")), adult), G("c"))], G("e")), salt="s", splitters=["uid"])
    rows = [(("pro", 30), ("pro", None)), (("pro", 3), ("pro", "n/a")), (("pro", 70), ("pro", (1, 2))), (("free", 30), ("free", 40))]
    inputs = [M.enc_inputs({"uid": "u%d" % j, "plan": a[0], "age": a[1]}) for j in range(6) for a, _ in rows]
    alts = [M.enc_inputs({"uid": "u%d" % j, "plan": b[0], "age": b[1]}) for j in range(6) for _, b in rows]
    yield {"prog": prog, "classes": {"uid": "any", "plan": "str", "age": "num"}, "inputs": inputs, "alts": alts, "extra": {}, "perm": 0, "newname": "renamed"}
    # splitter names that differ only in letter case, in every declaration order
    for k, names in enumerate((["id", "Id", "region"], ["uid", "UID"], ["a", "A", "b", "B"], ["Zeta", "zeta", "ZETA"])):
        prog = M.program("exp", M.ret([(M.lit_str("g%d" % j), "1") for j in range(16)]), salt=None if k % 2 else "s", splitters=names)
        inputs = [M.enc_inputs({n: "%s-%d" % (n, j) for n in names}) for j in range(10)]
        for perm in range(0, 24, 5):
            yield {"prog": prog, "classes": {n: "any" for n in names}, "inputs": inputs, "alts": inputs, "extra": {}, "perm": perm, "newname": "renamed"}


def run(ctx, rec):
    if ctx.shard == 0 and not k1_probe(rec):
        return
    if ctx.shard == 0:
        runner.direct_run(ctx, rec, "fixed-twins", fixed_twins(), judge)
        if rec.violations:
            return
    runner.hyp_run(ctx, rec, "twins", cases(), judge, ctx.n(400, 2500))
    if rec.violations:
        return
    if ctx.shard == 0:
        fixed_vary = [{"ws": ["1", "2", "1", "3"], "salts": ["a", "b"], "field": "uid", "base": 7, "kind": k, "cond": c}
                      for k in ("int", "str", "padded", "decimal", "fraction", "bigint") for c in (False, True)]
        # salts that differ only by trailing NUL characters (or by nothing but NULs): different salts all the same
        fixed_vary += [{"ws": ["1", "2", "1", "3"], "salts": list(p), "field": "uid", "base": 3, "kind": "str", "cond": False}
                       for p in (("wave-7", "wave-7\x00"), ("", "\x00"), ("a\x00", "a\x00\x00"), ("k", "k" + "\x00" * 64), ("\x00", "\x00\x00"))]
        # long descriptive salts that differ only in their tail (a trailing _v1 / _v2 after 31 ... 5000 equal characters), or only in
        # their first character, or only in the middle
        for n in (31, 32, 55, 56, 63, 64, 65, 119, 127, 128, 255, 256, 1023, 4096, 5000):
            stem = ("growth_checkout_price_anchor_returning_customers_eu_west_2026_q3_" * 80)[:n]
            fixed_vary += [{"ws": ["1", "2", "1", "3"], "salts": [stem + a, stem + b], "field": "uid", "base": 5, "kind": "str", "cond": n % 2 == 0}
                           for a, b in (("_v1", "_v2"), ("1", "2"))]
            fixed_vary.append({"ws": ["1", "1", "1", "1"], "salts": ["A" + stem, "B" + stem], "field": "uid", "base": 5, "kind": "int", "cond": False})
            fixed_vary.append({"ws": ["1", "1", "1", "1"], "salts": [stem + "x" + stem, stem + "y" + stem], "field": "uid", "base": 5, "kind": "padded", "cond": False})
        runner.direct_run(ctx, rec, "varies-fixed", fixed_vary, judge_vary)
        if rec.violations:
            return
    runner.hyp_run(ctx, rec, "varies", vary_cases(), judge_vary, ctx.n(40, 300))
