"""C13 - source text is inert data: literals cannot inject code."""
import ast
import builtins

import os

from hypothesis import strategies as st

from .. import common, gen, runner, sut
from .. import model as M

ID = "C13"
RULE = ("Generated programs whose string literals (group labels, predicate operands, tuple members) and salt are drawn from an "
        "adversarial alphabet (' \" \\ ( ) + { } % , # ; raw CR / FF / VT / NEL / LS characters, and payloads such as '+str(__pyab_sentinel__())+', ');f();(', "
        "{0.__class__}, %s, \\x27, trailing backslash, triple quotes). Oracles: (i) the Python AST of "
        "PythonCodeGen(...).generate() in both layouts and of generate_code(...) in both layouts, with every constant masked, "
        "equals that of the twin program in which every string is replaced by \"x\" (unparsable output counts as a "
        "difference); (ii) a sentinel callable planted in builtins has been called 0 times after compiling and after "
        "evaluating on generated inputs. (iii) a literal that spells program text (the tokens of two groups, the name of a field, the printed form of an earlier term) stays one constant, also when recompile()d into a live evaluator holding the program it spells. Non-trivial = some literal contains a quote, backslash, parenthesis or '+'; distinct "
        "by program text.")
RULE += (' Since round 7: data-looking payloads (versions, dates, patterns, formats, expressions) in ==, in, ordering and substring tests on either side.')
RULE += (' Since rounds 14-15: a slice of the catalogue in children with every environment variable the library consults set (none on the pinned tree).')
ASSUMPTIONS = [
    "both sides of the AST comparison come from the current generator, so refactoring the emitted code cannot alarm",
    "string contents avoid their own delimiter and line breaks (not expressible in the language)",
]
SHARDS = {"quick": 1, "thorough": 16}

SENTINEL = "__pyab_sentinel__"
PAYLOADS = [
    "'+str(__pyab_sentinel__())+'", '"+str(__pyab_sentinel__())+"', "' + __pyab_sentinel__() + '", "');__pyab_sentinel__();('",
    "']) or __pyab_sentinel__() or (['", "' if __pyab_sentinel__() else '", "\\'+str(__pyab_sentinel__())+\\'",
    "\\\\'+str(__pyab_sentinel__())+'", "{__pyab_sentinel__()}", "{0.__class__}", "%s", "%(x)s", "\\", "a\\", "\\\\", "'''", '"""',
    "\\x27+str(__pyab_sentinel__())+\\x27", "\\N{APOSTROPHE}", "#", "'#", "' #", "x' # y", "a,b", "(", ")", "()", "+", "__pyab_sentinel__()",
    "'; import os; '", "',__pyab_sentinel__(),'", "'], weights=[1]) or __pyab_sentinel__() or partial(deterministic_choice, population=['",
    "a\rimport os", "x\r__pyab_sentinel__()\r#", "\r", "line1\rline2", "a\x0cb", "\x0c__pyab_sentinel__()", "\u2028x", "\x85y",
    "\x0b", "\r__pyab_sentinel__()", "s\r\t__pyab_sentinel__()",
    "US\uff02 or f != \uff02", "x\uff07 weighted 0, \uff07y", "\uff02", "\uff07", "a\uff08b\uff09", "\uff5bx\uff5d", "\uff0b", "\uff03",
    "\uff02+str(__pyab_sentinel__())+\uff02", "\ufe63", "\u2033", "\u02ba",
    "x*/ def pwned { return 'evil' weighted 1 } /*", "*/ __pyab_sentinel__() /*", "*/", "/*", "a */ b", "// x",
    "nan", "inf", "Infinity", "-inf", "1e999", "12", "1_0", "0x1F", "1e3", "True", "None", "Ellipsis", "...", "NotImplemented", "__debug__",
    "<key>", "<body>", "<newline>", "<indent>", "<condition_kwargs>", "<salt>", "A<key>B", "{key}", "{body}", "$key", "%(key)s", "{{key}}",
    "__KEY__", "@@BODY@@", "${salt}", "<%= key %>", "\\g<1>", "\\1", "$1", "&", "\\0",
    "name='f'", "name='uid'", "f", "uid", "1", "(1, 2)", "Identifier(name='f')", "0", "z",
    "{uid}", "{uid!r}", "{uid:>30}", "{f}", "{uid.__class__}", "{uid.__init__.__globals__}", "{{x}}", "{{uid}}", "%(uid)s", "%(f)r", "$uid", "${uid}", "#{uid}", "<%= uid %>",
    "$PYAB_PLANTED", "${PYAB_PLANTED}", "%PYAB_PLANTED%", "a $PYAB_PLANTED b", "$HOME", "${HOME}", "$PATH", "~", "~root", "~/x", "$$", "$(id)", "`id`",
    "", " ", "it's", 'say "hi"', "plain", "\\n", "\\t'", "${x}", "`x`", "'+'", "\\'", 'a" + __pyab_sentinel__() + "b',
    # strings that look like data of some other type (versions, dates, addresses, numbers in other notations, patterns, formats)
    "2.10.0", "2.5", "10.0", "1.2.3.4", "v1.2", "2024-01-31", "12:30", "10.0.0.1", "a@b.co", "/usr/bin", "1,000", "50%", "$5", "#fff", "<b>", "&amp;",
    "null", "true", "false", "undefined", "NULL", "\\d+", ".*", "^a$", "[a-z]", "%Y-%m-%d", "{:>4}", "0b1", "0o7", "1j", "1L", "1.", ".5", "+1", "-1",
    # complete documents of some data format (a decoder that sniffs the content must not run on them)
    "[]", "[1, 2]", "{}", '{"a": 1}', "{'a': 1}", '[{"a": [1]}]', '"x"', "123", "1.5e3", "<a>b</a>", "a=1&b=2", "key: value", "b'x'", "(1, 2)", "[1,2][0]", "{1, 2}", "1_0",
    "1 2", "\u0661\u0662", "1e-3", "1/2", "3+4", "a.b", "a.b.c", "os.sep", "a[0]", "a(1)", "lambda: 1", "x if y else z", "not a", "a and b", "a in b",
]

_calls = {"n": 0}


def _sentinel(*a, **k):
    _calls["n"] += 1
    return "SENTINEL"


def _plant():
    setattr(builtins, SENTINEL, _sentinel)
    _calls["n"] = 0
    # an environment variable with a hostile value, referenced from literals as $NAME / ${NAME} / %NAME%: the text of an
    # experiment is not a template
    import os

    os.environ["PYAB_PLANTED"] = 'x" or uid != "' + "'+str(" + SENTINEL + "())+'"


def _ok_str(s):
    return not ('"' in s and "'" in s) and not any(c in s for c in M.LINE_BREAKS)


GOOD_PAYLOADS = [p for p in PAYLOADS if _ok_str(p)]


@st.composite
def adv_str(draw):
    if draw(st.integers(0, 3)):
        return draw(st.sampled_from(GOOD_PAYLOADS))
    s = "".join(draw(st.lists(st.sampled_from(list("'\\()+{}%,#; ab_\r\x0c") + [SENTINEL + "()"]), max_size=12)))
    if '"' in s and "'" in s:
        s = s.replace('"', "")
    return s


@st.composite
def cases(draw):
    strs = draw(st.lists(adv_str(), min_size=3, max_size=8))
    salts = draw(st.lists(adv_str(), min_size=1, max_size=3))
    sk = draw(gen.programs(strs=strs, salts=salts, max_depth=2, max_groups=3, mixed_labels=False))
    prog, classes = sk["prog"], sk["classes"]
    # labels too: replace some group labels by adversarial strings (kept unique by a suffix)
    for i, r in enumerate(M.returns(prog["body"])):
        for j, g in enumerate(r["groups"]):
            if draw(st.integers(0, 2)) == 0:
                s = draw(adv_str()) + "#%d_%d" % (i, j)
                g["lit"] = M.lit_str(s, "'" if '"' in s else '"')
    iv = gen.interesting_values(prog, classes)
    inputs = [M.enc_inputs(draw(gen.inputs_for(prog, classes, iv))) for _ in range(draw(st.integers(2, 4)))]
    return {"prog": prog, "inputs": inputs, "noise": draw(common.noise_strategy())}


def _twin(node):
    """same program with every string literal / salt replaced by a harmless one"""
    if isinstance(node, dict):
        if node.get("k") == "lit" and node.get("t") == "str":
            return dict(node, v="x", q='"')
        return {k: _twin(v) for k, v in node.items()}
    if isinstance(node, list):
        return [_twin(v) for v in node]
    return node


class _Mask(ast.NodeTransformer):
    def visit_Constant(self, node):
        return ast.copy_location(ast.Constant(value=0), node)


def _masked_dump(code):
    tree = ast.parse(code)
    return ast.dump(_Mask().visit(tree))


def _codes(text):
    W = sut.wrappers()
    G = sut.codegen()
    out = {}
    for expose in (False, True):
        out["generate(expose=%s)" % expose] = G.PythonCodeGen(W.parse_source(text), expose_experiment_variant_function=expose).generate()
        out["generate_code(expose=%s)" % expose] = W.generate_code(text, expose_internal_fn=expose)
    return out


def judge(case):
    prog = case["prog"]
    twin = _twin(prog)
    if twin["salt"] is not None:
        twin["salt"] = {"v": "x", "q": '"'}
    text, ttext = M.render(prog), M.render(twin)
    viol = []
    tags = []
    lits = [l["v"] for p in M.preds(prog["body"]) for c in M.cmps(p) for l in M.term_lits(c["l"]) + M.term_lits(c["r"]) if l["t"] == "str"]
    lits += [g["lit"]["v"] for r in M.returns(prog["body"]) for g in r["groups"] if g["lit"]["t"] == "str"]
    if prog["salt"] is not None:
        lits.append(prog["salt"]["v"])
        tags.append("adversarial-salt")
    nt = any(any(ch in s for ch in "'\"\\()+") for s in lits)
    if any(SENTINEL in s for s in lits):
        tags.append("call-payload")
    if any("\\" in s for s in lits):
        tags.append("backslash")
    if any("'" in s or '"' in s for s in lits):
        tags.append("quote")
    _plant()
    tags += common.pre_noise(case)
    try:
        mine = _codes(text)
        theirs = _codes(ttext)
    except Exception as e:
        return {"viol": ["code generation failed: %s: %s | %s" % (type(e).__name__, str(e)[:200], text)], "tags": tags, "nontrivial": nt, "key": text}
    for k in mine:
        try:
            a = _masked_dump(mine[k])
        except SyntaxError as e:
            viol.append("%s: generated code is not valid Python (%s) | %s" % (k, e, text))
            continue
        b = _masked_dump(theirs[k])
        if a != b:
            viol.append("%s: program structure differs from the harmless twin's | %s" % (k, text))
    res = sut.compile_text(text)
    if res[0] != "ok":
        viol.append("does not compile: %s %s | %s" % (res[1], res[2], text))
    else:
        declared = [M.lit_value(g["lit"]) for r in M.returns(prog["body"]) for g in r["groups"]]
        for enc in case["inputs"]:
            env = M.dec_inputs(enc)
            got = sut.call(res[1], env)
            # a group literal is data: what comes back is one of the declared labels, character for character (nothing
            # formats, interpolates or otherwise "applies" it to the call's fields)
            if got[0] == "error" and case.get("strict_eval") and got[1] in ("TypeError", "RecursionError", "NameError", "AttributeError", "KeyError"):
                # (type-compatible inputs by construction:) evaluation runs the fixed skeleton only - nothing of the experiment
                # (its name, its literals) stands in for a helper of that skeleton
                viol.append("evaluation ended in an internal %s: %s | inputs=%r | %s" % (got[1], got[2], env, text))
                break
            if got[0] == "group" and not any(sut.same_value(got[1], d) for d in declared):
                viol.append("evaluation returned %r, which is none of the declared group literals %r | inputs=%r | %s" % (got[1], declared[:6], env, text))
                break
    if _calls["n"]:
        viol.append("planted sentinel was called %d time(s) while compiling / evaluating | %s" % (_calls["n"], text))
    if viol and case.get("noise"):
        viol = [m + " | right after the unrelated text %r was compiled" % case["noise"] for m in viol]
        common.reset_after_violation()
    return {"viol": viol[:5], "nontrivial": nt, "tags": tags, "key": text, "sample": {"text": text[:400]}}


def judge_case(record):
    c = record["case"]
    if c.get("child_env") and not os.environ.get("PYAB_IN_CHILD"):
        return runner.child_judge("C13", [c], env_extra=dict(c["child_env"], PYAB_IN_CHILD="1"))["results"][0]
    return (judge_spelling(c) if "pick" in c else judge(c))["viol"]


def named_cases():
    """experiments NAMED like the helpers and builtins the evaluation skeleton uses (their own def must not stand in for them)"""
    for name in ("partial", "deterministic_choice", "str", "map", "choose_experiment_variant", "isinstance", "list", "tuple", "len", "repr", "print", "exec", "compile"):
        p = name + "(1)"
        body = M.if_([(M.cmp_(M.ident("f"), "==", M.lit_str(p)), M.ret([(M.lit_str(p + "#a"), "1"), (M.lit_str(name), "1")]))], M.ret([(M.lit_str("c"), "1")]))
        yield {"prog": M.program(name, body, salt=name, splitters=["uid"]), "strict_eval": True, "noise": None,
               "inputs": [M.enc_inputs({"uid": "u%d" % j, "f": [p, "z", name][j % 3]}) for j in range(6)]}


def fixed_cases():
    for p in GOOD_PAYLOADS:
        q = "'" if '"' in p else '"'
        body = M.if_([(M.cmp_(M.ident("f"), "==", M.lit_str(p, q)), M.ret([(M.lit_str(p + "#a", q), "1")])),
                      (M.cmp_(M.ident("f"), "in", M.tup([M.lit_str(p, q), M.lit_str("z")])), M.ret([(M.lit_str(p, q), "1")])),  # (the payload itself is the group handed back)
                      # the payload as the ONLY member of a tuple (it stays a tuple whatever the payload contains), also nested
                      (M.cmp_(M.ident("f"), "in", M.tup([M.lit_str(p, q)])), M.ret([(M.lit_str("one"), "1")])),
                      (M.cmp_(M.ident("f"), "not in", M.tup([M.tup([M.lit_str(p, q)]), M.tup([M.lit_int("1"), M.lit_int("2")])])), M.ret([(M.lit_str("nested"), "1")])),
                      # ordering and substring tests, literal on either side
                      (M.cmp_(M.ident("g"), ">=", M.lit_str(p, q)), M.ret([(M.lit_str("ge"), "1")])),
                      (M.cmp_(M.lit_str(p, q), "<", M.ident("h")), M.ret([(M.lit_str("lt"), "1")])),
                      (M.and_(M.cmp_(M.ident("g"), "in", M.lit_str(p, q)), M.not_(M.cmp_(M.ident("h"), "<=", M.lit_str(p, q)))), M.ret([(M.lit_str("sub"), "1")]))],
                     M.ret([(M.lit_str("c"), "1")]))
        yield {"prog": M.program("e", body, salt=p, splitters=["uid"], salt_q=q),
               "inputs": [M.enc_inputs({"uid": "u1", "f": p, "g": "", "h": ""}), M.enc_inputs({"uid": "u2", "f": "z", "g": p, "h": p}),
                          M.enc_inputs({"uid": "u3", "f": 0, "g": "harmless", "h": "2.9.1"}), M.enc_inputs({"uid": "u3", "f": 0, "g": "", "h": "~"})],
               "noise": common.NOISE_TEXTS[3 + len(p) % 3] if len(p) % 2 else None}


SPELLING = ["spelling the tokens", "identifier operand", "same spelling"]


def judge_spelling(case):
    """a string literal that spells program text (the tokens of two groups, the name of a field) is still one constant - also
    when it reaches a live evaluator that holds the program it spells"""
    from . import c11

    case = dict(case, only=SPELLING)
    return c11.judge_neighbours(case)


def run(ctx, rec):
    if ctx.shard == 0:
        runner.direct_run(ctx, rec, "payload-catalogue", fixed_cases(), judge)
        if rec.violations:
            return
        runner.direct_run(ctx, rec, "experiments-named-like-skeleton-helpers", [c for c in named_cases()], judge)
        if rec.violations:
            return
    if ctx.shard == 0:
        # text stays data whatever the host's environment says: every variable the library is seen to consult (none at all on
        # the pinned tree) is set to a few plausible values in child interpreters that judge a slice of the catalogue
        from .. import envspy

        sl = [c for i, c in enumerate(fixed_cases()) if i % 3 == 0][:40]
        spy = runner.child_judge("C13", sl, env_extra={"PYAB_ENVSPY": "1"})
        rec.evaluations += len(sl)
        rec.count("environment-variables-consulted-by-the-library", len(spy.get("env_keys", [])))
        for c, msgs in zip(sl, spy["results"]):
            if msgs:
                rec.violation("payload-catalogue-in-a-child-interpreter", c, msgs)
                return
        for key in spy.get("env_keys", [])[:6]:
            for val in envspy.VALUES[:4]:
                res = runner.child_judge("C13", sl, env_extra={key: val})
                rec.evaluations += len(sl)
                for c, msgs in zip(sl, res["results"]):
                    if msgs:
                        rec.violation("payload-catalogue-with-environment", dict(c, child_env={key: val}), ["with %s=%s in the environment: %s" % (key, val, m) for m in msgs])
                        return
    runner.hyp_run(ctx, rec, "generated", cases(), judge, ctx.n(150, 1200))
    if rec.violations:
        return
    from . import c11

    if ctx.shard == 0:
        runner.direct_run(ctx, rec, "literal-spelling-neighbours-of-fixed-programs", c11.fixed_neighbours(only=SPELLING), judge_spelling)
        if rec.violations:
            return
    runner.hyp_run(ctx, rec, "literal-spelling-program-text-through-recompile", c11.neighbour_cases(), judge_spelling, ctx.n(80, 500))
