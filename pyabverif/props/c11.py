"""C11 - evaluator lifecycle: recompile is atomic, repeatable and instance-local."""
from hypothesis import strategies as st

from .. import common, runner, sut
from .. import model as M

ID = "C11"
RULE = ("Generated operation sequences (up to 50 steps, up to 4 evaluators) over an alphabet of 26 valid texts (same experiment "
        "name with different weights / groups, different names, different fields, a trivia variant of the same program, pairs that differ only in whitespace inside a string literal or after a // comment) and 11 "
        "invalid texts (syntactic: truncated, missing brace, two definitions, trailing junk; lexical: illegal character, unterminated block comment): "
        "new(valid), new(invalid), recompile(valid), recompile(current text), recompile(invalid) - also immediately repeated - "
        "recompile(grammatical text whose generated code does not compile today - known finding K1: must change nothing if it raises) and call. Model: each evaluator = 'a fresh evaluator built from the last text it accepted'. After EVERY step every "
        "evaluator is compared with its model on a fixed probe set (so an effect on another evaluator is seen); invalid texts "
        "must raise every time and change nothing. A second part derives from a generated program pairs of DIFFERENT neighbour texts that a normalising shortcut would confuse (whitespace / comment look-alikes / case / Unicode normal forms inside strings, ==-equal literals of another type, a label spelling the tokens of two groups, identifier vs string of the same text, one more digit in a weight) and demands that E(A).recompile(B) behaves exactly like a fresh E(B), type-sensitively, and back. Non-trivial = history containing a failed recompile followed by a further "
        "operation on the same evaluator; distinct by operation sequence.")
RULE += (' Since rounds 6-7: every neighbour pair of three fixed programs (incl. Adler-32 / CRC-32 / byte-sum twins) in both directions; a copy operation (copy.copy / deepcopy).')
RULE += (" Since rounds 14-15: texts whose reached branch weighs nothing; every catalogue text constructed and recompiled to / from; every text of C06's invalid catalogue handed to recompile().")
ASSUMPTIONS = [
    "all valid texts declare a splitter, so a probe result is a deterministic function of (text, probe)",
    "invalid texts are rejected by the independent recogniser of C06 (checked in the self-test)",
]
SHARDS = {"quick": 1, "thorough": 16}

VALID = [
    'def exp { splitters: uid return "A" weighted 1, "B" weighted 1 }',
    'def exp { splitters: uid return "A" weighted 9, "B" weighted 1 }',
    'def exp { splitters: uid return "A" weighted 1, "B" weighted 1, "C" weighted 2 }',
    'def exp /* same program, other trivia */ {\n  splitters: uid // ids\n  return "A" weighted 1,\n         "B" weighted 1\n}',
    'def other { salt: "s" splitters: uid if plan == "pro" { return "P1" weighted 1, "P2" weighted 3 } else { return "F" weighted 1 } }',
    'def other { salt: "t" splitters: uid if plan == "pro" { return "P1" weighted 1, "P2" weighted 3 } else { return "F" weighted 1 } }',
    'def third { splitters: uid, plan if uid in ("u1", "u2") { return 1 weighted 1 } else if plan != "pro" { return 2.5 weighted 1, "x" weighted 1 } }',
    'def exp { splitters: plan return "A" weighted 1, "B" weighted 1 }',
    # pairs that differ ONLY in whitespace, yet mean different things (blanks inside a string literal / a salt)
    'def ws { salt: "s 1" splitters: uid return "A" weighted 1, "B" weighted 1, "C" weighted 1, "D" weighted 1 }',
    'def ws { salt: "s  1" splitters: uid return "A" weighted 1, "B" weighted 1, "C" weighted 1, "D" weighted 1 }',
    'def ws { splitters: uid if plan == "pro" { return "A B" weighted 1 } else { return "A  B" weighted 1 } }',
    'def ws { splitters: uid if plan == "pro" { return "A  B" weighted 1 } else { return "A B" weighted 1 } }',
    # pairs that differ only after a // (or inside a /* */) that sits INSIDE a string literal
    'def url { salt: "https://exp.example/a" splitters: uid return "A" weighted 1, "B" weighted 1, "C" weighted 1, "D" weighted 1 }',
    'def url { salt: "https://exp.example/b" splitters: uid return "A" weighted 1, "B" weighted 1, "C" weighted 1, "D" weighted 1 }',
    'def url { splitters: uid return "x /* 1 */" weighted 1, "y" weighted 1 }',
    'def url { splitters: uid return "x /* 2 */" weighted 1, "y" weighted 1 }',
    # experiments named like attributes of the evaluator object
    'def recompile { splitters: uid return "A" weighted 1, "B" weighted 1 }',
    'def run_experiment { splitters: uid return "A" weighted 3, "B" weighted 1 }',
    'def _checksum { splitters: uid return "A" weighted 1, "B" weighted 3 }',
    'def __dict__ { splitters: uid return "A" weighted 1, "B" weighted 1, "C" weighted 1 }',
    'def __call__ { splitters: uid if plan == "pro" { return "A" weighted 1 } else { return "B" weighted 1, "C" weighted 1 } }',
    # experiments named like the FIELDS other texts (and other evaluators) read: uid, plan
    'def plan { splitters: uid return "A" weighted 1, "B" weighted 2 }',
    'def uid { salt: "u" splitters: plan return "A" weighted 2, "B" weighted 1 }',
    # a switched-off branch (its statement weighs nothing; never reached by the probes): compiles like any other text
    'def exp { splitters: uid if plan == "XX" { return "off" weighted 0 } else { return "A" weighted 1, "B" weighted 2 } }',
    # texts with a statement that weighs nothing in a branch that IS reached (calls routed there fail, at call time; the text is
    # valid and loads like any other - e.g. an experiment switched off for everybody but one plan)
    'def exp { splitters: uid if plan == "pro" { return "A" weighted 1, "B" weighted 1 } else { return "off" weighted 0, "off2" weighted 0.0 } }',
    'def off { splitters: uid return "off" weighted 0 }',
    # a segment table: one top-level chain of 640 links (loads like any other text, and leaves the interpreter as it found it)
    'def table { splitters: uid ' + " else ".join('if plan == "p%d" { return "s%d" weighted 1, "t%d" weighted 1 }' % (i, i, i) for i in range(640)) + ' else { return "A" weighted 1, "B" weighted 1 } }',
    # ==-equal group values of different type / sign
    'def num { splitters: uid return 1 weighted 1, 2 weighted 1 }',
    'def num { splitters: uid return 1.0 weighted 1, 2.0 weighted 1 }',
    'def num { splitters: uid return 0 weighted 1, 2 weighted 1 }',
    'def num { splitters: uid return -0.0 weighted 1, 2 weighted 1 }',
    # a // comment ended by a line break (valid); INVALID[8] is the same text with that line break turned into a blank
    'def exp { splitters: uid // two arms\n return "A" weighted 1, "B" weighted 3 }',
]
INVALID = [
    'def exp { splitters: uid return "A" weighted 1, "B" weighted',
    'def exp { splitters: uid return "A" weighted 1, "B" weighted 1',
    'def exp { splitters: uid return "A" weighted 1 } def exp2 { splitters: uid return "B" weighted 1 }',
    'def exp { splitters: uid return "A" weighted 1 } trailing',
    'def exp { splitters: uid return "A" weighted 1 ; }',
    'def exp { splitters: uid if uid = 1 { return "A" weighted 1 } }',
    '',
    'exp { splitters: uid return "A" weighted 1 }',
    'def exp { splitters: uid // two arms  return "A" weighted 1, "B" weighted 3 }',
    # an unterminated block comment that swallows the closing brace (invalid under every reading)
    'def exp { splitters: uid return "A" weighted 1, "B" weighted 1 /* forgot to close }',
    'def exp { splitters: uid /* open return "A" weighted 1 }',
]
N_OWN_INVALID = len(INVALID)


def _more_invalid():
    # the whole catalogue of texts outside the grammar that C06 keeps (each rejected by the reference recogniser)
    from . import c06

    return [t for t in c06.FIXED if t not in INVALID]


INVALID += _more_invalid()
# grammatical texts whose generated code does not compile today (known finding K1): whatever happens, a recompile that
# raises must change nothing, one that succeeds must switch completely
MAYBE = [
    'def lambda { splitters: uid return "A" weighted 1, "B" weighted 1 }',
    'def exp { splitters: uid, class return "A" weighted 1, "B" weighted 1 }',
    'def other { splitters: uid if is == 1 { return "A" weighted 1 } else { return "B" weighted 1 } }',
]
PROBES = [{"uid": "u%d" % i, "plan": p} for i in range(1, 9) for p in ("pro", "free")]

_FRESH = {}


def _text_of(ti):
    return MAYBE[int(ti[5:])] if isinstance(ti, str) else VALID[ti]


def _canon(o):
    """outcome with its type spelled out (1 and 1.0, 0 and -0.0 must not be confused)"""
    if o[0] == "group":
        return ("group", type(o[1]).__name__, repr(o[1]))
    return tuple(o[:2])


def _probe(ev, p):
    return _canon(sut.call(ev, p))


_DECLARED = {}


def _declared(ti):
    """the group values a text declares, with their types - read off the text by the reference lexer, so a process-wide cache
    that poisons even the 'fresh' evaluator cannot hide a wrong value or type"""
    if ti not in _DECLARED:
        from .. import refgrammar

        toks = refgrammar.lex(_text_of(ti))
        out = set()
        for i, (ty, tx) in enumerate(toks):
            if ty == "WEIGHTED":
                lt, lx = toks[i - 1]
                neg = i >= 2 and toks[i - 2][0] == "MINUS"
                if lt == "STRING":
                    v = lx[1:-1]
                elif lt == "INT":
                    v = -int(lx) if neg else int(lx)
                else:
                    v = -float(lx) if neg else float(lx)
                out.add(("group", type(v).__name__, repr(v)))
        _DECLARED[ti] = out
    return _DECLARED[ti]


_NEEDED = {}


def _needed_fields(ti):
    """the fields a text reads (identifiers after `splitters:` and in predicates), via the reference lexer"""
    if ti not in _NEEDED:
        from .. import refgrammar

        toks = refgrammar.lex(_text_of(ti))
        _NEEDED[ti] = sorted({tx for i, (ty, tx) in enumerate(toks) if ty == "ID" and i > 1})
    return _NEEDED[ti]


def _minimal(ti, p):
    """the probe reduced to exactly the fields the text needs (an evaluator must not insist on fields of an EARLIER text)"""
    return {k: v for k, v in p.items() if k in _needed_fields(ti)}


def _fresh(ti):
    if ti not in _FRESH:
        res = sut.compile_text(_text_of(ti))
        if res[0] != "ok":
            raise RuntimeError("valid text %d does not compile: %r" % (ti, res))
        ev = res[1]
        _FRESH[ti] = [_probe(ev, p) for p in PROBES]
    return _FRESH[ti]


@st.composite
def histories(draw):
    n = draw(st.integers(2, 50))
    ops = [["new", draw(st.integers(0, len(VALID) - 1))]]
    for _ in range(n):
        k = draw(st.sampled_from(["new", "new_invalid", "recompile", "recompile", "recompile_same", "recompile_invalid",
                                  "recompile_invalid", "repeat_invalid", "call", "call", "recompile_maybe", "copy"]))
        e = draw(st.integers(0, 3))
        if k == "new":
            ops.append(["new", draw(st.integers(0, len(VALID) - 1))])
        elif k == "new_invalid":
            ops.append(["new_invalid", draw(st.integers(0, len(INVALID) - 1))])
        elif k == "recompile":
            ops.append(["recompile", e, draw(st.integers(0, len(VALID) - 1)), draw(st.integers(0, 2)) == 0])
        elif k == "recompile_same":
            ops.append(["recompile_same", e])
        elif k == "copy":
            ops.append(["copy", e, draw(st.integers(0, 1))])
        elif k == "recompile_invalid":
            ops.append(["recompile_invalid", e, draw(st.integers(0, len(INVALID) - 1)), draw(st.integers(0, 2)) == 0])
        elif k == "recompile_maybe":
            ops.append(["recompile_maybe", e, draw(st.integers(0, len(MAYBE) - 1))])
        elif k == "repeat_invalid":
            t = draw(st.integers(0, len(INVALID) - 1))
            ops.append(["recompile_invalid", e, t])
            ops.append(["recompile_invalid", e, t])
        else:
            ops.append(["call", e, draw(st.integers(0, len(PROBES) - 1))])
    return {"ops": ops, "probe_only_at_end": draw(st.integers(0, 3)) == 0}


def judge(case):
    from .. import common

    state0 = common.global_state()
    res = _judge(case)
    changed = common.state_diff(state0, common.global_state())
    if changed and not res["viol"]:
        res["viol"] = ["interpreter-wide state was changed by the history %r: %s" % (case["ops"][:8], "; ".join(changed))]
        common.restore_state(state0)
    return res


def _judge(case):
    E = sut.evaluator_mod().ExperimentEvaluator
    evs, model = [], []
    viol = []
    tags = set()
    failed_on = set()
    nt = False

    def check_all(step, op):
        for i, ev in enumerate(evs):
            got = [_probe(ev, p) for p in PROBES]
            undeclared = [g for g in got if g[0] == "group" and g not in _declared(model[i])]
            if undeclared:
                viol.append("after step %d %r: evaluator #%d returned %r, which is not a group (value and type) declared by its text "
                            "%r" % (step, op, i, undeclared[0], _text_of(model[i])[:80]))
                return False
            got_min = [_probe(ev, _minimal(model[i], p)) for p in PROBES[:4]]
            if got == _fresh(model[i]) and got_min != _fresh(model[i])[:4]:
                viol.append("after step %d %r: evaluator #%d, called with exactly the fields its text %r reads (%r), gives %r; with "
                            "extra fields it gives %r" % (step, op, i, _text_of(model[i])[:60], _needed_fields(model[i]), got_min[0],
                                                          got[0]))
                return False
            if got != _fresh(model[i]):
                bad = next(j for j in range(len(PROBES)) if got[j] != _fresh(model[i])[j])
                viol.append("after step %d %r: evaluator #%d should behave like a fresh evaluator of text %d (%r) but probe %r gives "
                            "%r instead of %r" % (step, op, i, model[i], _text_of(model[i])[:60], PROBES[bad], got[bad], _fresh(model[i])[bad]))
                return False
        return True

    for step, op in enumerate(case["ops"]):
        kind = op[0]
        tags.add("op:" + kind)
        if kind == "new":
            if len(evs) >= 4:
                continue
            try:
                evs.append(E(VALID[op[1]]))
                model.append(op[1])
            except Exception as e:
                viol.append("step %d: constructing from a valid text raised %s: %s" % (step, type(e).__name__, e))
                break
        elif kind == "new_invalid":
            try:
                E(INVALID[op[1]])
                viol.append("step %d: constructing from invalid text %r did not raise" % (step, INVALID[op[1]]))
                break
            except Exception:
                pass
        else:
            if not evs:
                continue
            i = op[1] % len(evs)
            if i in failed_on:
                nt = True
            if kind == "recompile":
                try:
                    if len(op) > 3 and op[3]:
                        # as a poller does that renders its text anew on every tick: the new text object sits where the old one was
                        common.recycled_recompile(evs[i], _text_of(model[i]), VALID[op[2]])
                        tags.add("recompile-with-recycled-object-id")
                    else:
                        evs[i].recompile(VALID[op[2]])
                    model[i] = op[2]
                except Exception as e:
                    viol.append("step %d: recompile with a valid text raised %s: %s" % (step, type(e).__name__, e))
                    break
            elif kind == "copy":
                # a copy (copy.copy / copy.deepcopy) is an evaluator too: it takes the place of its original (or joins the set)
                # and must behave like a fresh evaluator of the text the original last accepted
                import copy as _copy

                try:
                    c = (_copy.copy, _copy.deepcopy)[op[2]](evs[i])
                except Exception as e:
                    viol.append("step %d: copying evaluator #%d raised %s: %s" % (step, i, type(e).__name__, e))
                    break
                if len(evs) < 4:
                    evs.append(c)
                    model.append(model[i])
                else:
                    evs[i] = c
            elif kind == "recompile_same":
                try:
                    evs[i].recompile(_text_of(model[i]))
                except Exception as e:
                    viol.append("step %d: recompiling the current text raised %s: %s" % (step, type(e).__name__, e))
                    break
            elif kind == "recompile_invalid":
                try:
                    if len(op) > 3 and op[3]:
                        common.recycled_recompile(evs[i], _text_of(model[i]), INVALID[op[2]])
                    else:
                        evs[i].recompile(INVALID[op[2]])
                    viol.append("step %d: recompile of evaluator #%d with invalid text %r returned without raising (history so far: %r)"
                                % (step, i, INVALID[op[2]], case["ops"][:step + 1]))
                    break
                except Exception:
                    failed_on.add(i)
            elif kind == "recompile_maybe":
                try:
                    evs[i].recompile(MAYBE[op[2]])
                    ok = True
                except Exception:
                    ok = False
                    failed_on.add(i)
                if ok:
                    # accepted: from now on the evaluator must behave like a fresh one of that text
                    key = "maybe%d" % op[2]
                    if key not in _FRESH:
                        r = sut.compile_text(MAYBE[op[2]])
                        if r[0] != "ok":
                            viol.append("step %d: recompile accepted %r but a fresh evaluator rejects it" % (step, MAYBE[op[2]]))
                            break
                        _FRESH[key] = [_probe(r[1], p) for p in PROBES]
                    model[i] = key
            elif kind == "call":
                got = _probe(evs[i], PROBES[op[2]])
                if got != _fresh(model[i])[op[2]]:
                    viol.append("step %d: call on evaluator #%d gave %r, a fresh evaluator of its text gives %r" % (step, i, got, _fresh(model[i])[op[2]]))
                    break
        if case.get("probe_only_at_end") and step < len(case["ops"]) - 1:
            continue  # no observation between the operations: nothing may stay pending from an intermediate text
        if not check_all(step, op):
            break
    if not viol:
        # the history must not leave anything behind: a brand-new evaluator of a valid text still works afterwards
        # (this also attributes a process-wide state leak to the history that caused it, so the replay reproduces)
        try:
            ev = E(VALID[0])
            if [_probe(ev, p) for p in PROBES] != _fresh(0):
                viol.append("after the history %r a new evaluator of a valid text behaves differently from before" % (case["ops"],))
        except Exception as e:
            viol.append("after the history %r constructing a new evaluator from a valid text raises %s: %s"
                        % (case["ops"], type(e).__name__, e))
    if viol:
        # leave the process usable for the shrinker / the next case: a text containing */ closes a leaked comment state
        for _ in range(2):
            sut.compile_text("/* reset */ " + VALID[0])
    return {"viol": viol[:3], "nontrivial": nt, "tags": sorted(tags), "key": case["ops"], "sample": {"ops": case["ops"][:14]}}


def judge_case(record):
    c = record["case"]
    return (judge_neighbours(c) if "pick" in c else judge(c))["viol"]


def selftest():
    from .. import refgrammar

    for t in VALID:
        assert refgrammar.classify(t) == "accept", t
    for t in INVALID:
        assert refgrammar.classify(t) == "reject", t


# --------------------------------------------------------------------------- neighbour texts through a live evaluator
@st.composite
def neighbour_cases(draw):
    from .. import gen

    sk = draw(gen.programs(min_splitters=1, max_splitters=2, max_depth=1, max_branches=2, max_groups=3, strs=["a", "b c", "US", "x y"],
                           salts=["s 1", "salt", "a b"], mixed_labels=draw(st.booleans())))
    prog, classes = sk["prog"], sk["classes"]
    iv = gen.interesting_values(prog, classes)
    inputs = [M.enc_inputs(draw(gen.inputs_for(prog, classes, iv))) for _ in range(draw(st.integers(3, 6)))]
    return {"prog": prog, "inputs": inputs, "pick": draw(st.lists(st.integers(0, 200), min_size=3, max_size=6)),
            "direction": draw(st.booleans())}


def judge_neighbours(case):
    """E(A).recompile(B) must behave exactly like a fresh E(B) for texts A != B that a normalising shortcut would confuse"""
    from .. import neighbours

    nbs = neighbours.neighbours(case["prog"], case.get("only"), case.get("limit", 3))
    viol = []
    tags = set()
    keys = []
    if not nbs:
        return {"viol": [], "nontrivial": False, "tags": ["neighbours:none"]}
    for k in case["pick"]:
        what, a, b = nbs[k % len(nbs)]
        if not case["direction"]:
            a, b = b, a
        ta, tb = M.render(a), M.render(b)
        ra, rb = sut.compile_text(ta), sut.compile_text(tb)
        if ra[0] != "ok" or rb[0] != "ok":
            continue  # whether such a text compiles at all is C07's business
        tags.add("neighbour:" + what.split(" (")[0])
        keys.append([ta, tb])
        envs = [M.dec_inputs(e) for e in case["inputs"]]
        # also probe with the literal contents themselves
        fresh_b = [_canon(sut.call(rb[1], e)) for e in envs]
        live = ra[1]
        before = [_canon(sut.call(live, e)) for e in envs]
        try:
            common.recycled_recompile(live, ta, tb)
        except Exception as e:
            viol.append("recompile raised %s: %s | held %r | new %r" % (type(e).__name__, e, ta, tb))
            continue
        after = [_canon(sut.call(live, e)) for e in envs]
        # oracle 1 (independent of anything cached in this process): the reference interpreter on the NEW program
        from .. import refinterp

        bad_ref = None
        for e, got in zip(envs, after):
            try:
                exp = refinterp.run(b, e)
            except TypeError:
                continue
            if exp[0] == "return":
                allowed = {("group", type(v).__name__, repr(v)) for v in refinterp.group_values(M.returns(b["body"])[exp[1]])}
                if got not in allowed:
                    bad_ref = (e, got, sorted(allowed))
                    break
            elif got[0] != "unroutable":
                bad_ref = (e, got, "the unroutable error")
                break
        if bad_ref:
            viol.append("%s: after recompile the evaluator gives %r for %r; the new text means %r | held %r | new %r"
                        % (what, bad_ref[1], bad_ref[0], bad_ref[2], ta, tb))
            continue
        # oracle 2: texts that differ in the salt must give different assignments (64 units, a statement with >=2 groups)
        sa = a["salt"]["v"] if a["salt"] else None
        sb = b["salt"]["v"] if b["salt"] else None
        free = [f for f in (b["splitters"] or []) if f not in M.condition_fields(b)]
        if (sa or "") != (sb or "") and free and envs:
            try:
                exp = refinterp.run(b, envs[0])
            except TypeError:
                exp = ("unroutable",)
            shares = [float(g["w"]) for g in M.returns(b["body"])[exp[1]]["groups"]] if exp[0] == "return" else [1.0]
            # two independent assignments of 64 units coincide with probability (sum of squared shares)^64: demand < 1e-12
            # (a 100 : 1 statement puts all 64 units into the big group under most salts - found by a thorough run, see DESIGN 9)
            if exp[0] == "return" and sum((w / sum(shares)) ** 2 for w in shares) <= 0.64:
                units = ["unit-%d" % i for i in range(64)]
                live_a = sut.compile_text(ta)[1]
                va = [_canon(sut.call(live_a, dict(envs[0], **{free[0]: u}))) for u in units]
                vb = [_canon(sut.call(live, dict(envs[0], **{free[0]: u}))) for u in units]
                if va == vb and len(set(va)) >= 2:
                    viol.append("%s: the new salt %r gives exactly the assignments of the old salt %r for 64 units after recompile | "
                                "held %r | new %r" % (what, sb, sa, ta, tb))
                    continue
        if after != fresh_b:
            j = next(i for i in range(len(envs)) if after[i] != fresh_b[i])
            viol.append("%s: after recompile the evaluator gives %r for %r, a fresh evaluator of the new text gives %r (before the "
                        "recompile: %r) | held %r | new %r" % (what, after[j], envs[j], fresh_b[j], before[j], ta, tb))
            continue
        # and back again (the old text must not be mistaken for the current one either)
        try:
            common.recycled_recompile(live, tb, ta)
        except Exception as e:
            viol.append("recompile back raised %s: %s" % (type(e).__name__, e))
            continue
        back = [_canon(sut.call(live, e)) for e in envs]
        if back != before:
            viol.append("%s: recompiling back to the first text does not restore its behaviour | %r <-> %r" % (what, ta, tb))
    return {"viol": viol[:3], "nontrivial": bool(keys), "tags": sorted(tags), "key": keys,
            "sample": {"held": keys[0][0][:200], "recompiled_to": keys[0][1][:200]} if keys else None}


FIXED = [
    {"ops": [["new", 0], ["recompile_invalid", 0, 0], ["recompile_invalid", 0, 0], ["call", 0, 0]]},
    {"ops": [["new", 0], ["recompile_invalid", 0, 4], ["recompile", 0, 1], ["recompile_invalid", 0, 4], ["recompile_invalid", 0, 4], ["recompile_same", 0]]},
    {"ops": [["new", 0], ["new", 4], ["recompile", 0, 4], ["recompile", 1, 0], ["recompile_invalid", 1, 2], ["call", 0, 3], ["call", 1, 3]]},
    {"ops": [["new", 0], ["new", 0], ["recompile", 0, 1], ["call", 1, 0], ["recompile_same", 1], ["recompile", 0, 0], ["recompile", 0, 3]]},
]


def _idx(fragment):
    return next(i for i, t in enumerate(VALID) if fragment in t)


def more_fixed():
    a, b = _idx("return 1 weighted 1, 2 weighted 1"), _idx("return 1.0 weighted 1, 2.0 weighted 1")
    c, d = _idx("return 0 weighted 1, 2 weighted 1"), _idx("return -0.0 weighted 1, 2 weighted 1")
    only_plan, both = _idx("def exp { splitters: plan return"), _idx('def third { splitters: uid, plan')
    for x, y in ((a, b), (b, a), (c, d), (d, c)):
        yield {"ops": [["new", x], ["call", 0, 0], ["recompile", 0, y], ["call", 0, 1], ["recompile", 0, x], ["recompile", 0, y], ["call", 0, 2]]}
        yield {"ops": [["new", x], ["new", y], ["call", 1, 0], ["call", 0, 0], ["recompile", 1, x], ["recompile", 0, y]], "probe_only_at_end": True}
    # texts handed over as temporaries whose object id is recycled (same size, the old one collected): valid -> valid, valid ->
    # invalid, back and forth
    ws1, ws2 = _idx('def ws { salt: "s 1"'), _idx('def ws { salt: "s  1"')
    u1, u2 = _idx('def url { salt: "https://exp.example/a"'), _idx('def url { salt: "https://exp.example/b"')
    yield {"ops": [["new", ws1], ["recompile", 0, ws2, True], ["call", 0, 0], ["recompile", 0, ws1, True], ["call", 0, 1], ["recompile", 0, u1, True],
                   ["recompile", 0, u2, True], ["call", 0, 2], ["recompile_invalid", 0, 1, True], ["recompile_invalid", 0, 1, True], ["call", 0, 3],
                   ["recompile", 0, u1, True], ["recompile_invalid", 0, 0, True], ["recompile", 0, a, True], ["recompile", 0, b, True], ["call", 0, 0]]}
    off = _idx('def exp { splitters: uid if plan == "XX" { return "off"')
    yield {"ops": [["new", a], ["recompile", 0, off], ["call", 0, 0], ["recompile", 0, a], ["call", 0, 1], ["new", off], ["recompile", 1, b], ["recompile", 1, off], ["call", 1, 2]]}
    named_plan, named_uid = _idx("def plan { splitters: uid"), _idx('def uid { salt: "u"')
    yield {"ops": [["new", both], ["call", 0, 0], ["new", named_plan], ["call", 1, 1], ["recompile", 0, named_uid], ["call", 0, 2], ["recompile", 1, both],
                   ["recompile", 1, named_plan], ["new", named_uid], ["call", 2, 0]]}
    for how in (0, 1):
        yield {"ops": [["new", a], ["recompile", 0, c], ["copy", 0, how], ["call", 1, 0], ["recompile", 0, a], ["call", 1, 1], ["recompile", 1, b], ["call", 0, 2]]}
    # texts that read different field sets, in both directions
    for x, y in ((both, only_plan), (only_plan, both), (_idx("def other { salt: \"s\""), _idx("def num { splitters: uid return 1 w"))):
        yield {"ops": [["new", x], ["recompile", 0, y], ["call", 0, 0], ["recompile", 0, x], ["call", 0, 1]]}


def every_text_fixed():
    """every valid text of the catalogue: constructed, and reached from / left for another text through recompile()"""
    for ti in range(1, len(VALID)):
        yield {"ops": [["new", 0], ["recompile", 0, ti], ["call", 0, 0], ["recompile", 0, 0], ["call", 0, 1], ["new", ti], ["call", 1, 2], ["recompile", 1, 0],
                       ["recompile", 1, ti], ["call", 1, 3]]}


def every_invalid_fixed():
    """every text of the invalid catalogue handed to recompile() (twice, the second time through a recycled object id) on a live
    evaluator: it raises, and the evaluator still answers for the text it held"""
    for ii in range(len(INVALID)):
        held = [0, 4, 2][ii % 3]
        yield {"ops": [["new", held], ["call", 0, ii % 4], ["recompile_invalid", 0, ii], ["call", 0, (ii + 1) % 4], ["recompile_invalid", 0, ii, True], ["recompile_same", 0],
                       ["call", 0, (ii + 2) % 4]]}


def fixed_neighbours(chunk=6, only=None):
    """EVERY neighbour pair (whitespace / comment look-alikes / case / normal forms inside strings, ==-equal literals of another
    type, same spelling as another token type, weak-fingerprint twins: same length and Adler-32 / byte sum / CRC-32 ...) of three
    fixed programs, in both directions through recompile()"""
    from .. import neighbours

    for prog, envs in neighbours.fixed_programs():
        n = len(neighbours.neighbours(prog, only, 99))
        inputs = [M.enc_inputs(e) for e in envs]
        for d in (True, False):
            for k in range(0, n, chunk):
                c = {"prog": prog, "inputs": inputs, "pick": list(range(k, min(n, k + chunk))), "direction": d, "limit": 99}
                if only:
                    c["only"] = only
                yield c


def run(ctx, rec):
    if ctx.shard == 0:
        runner.direct_run(ctx, rec, "fixed-histories", FIXED + list(more_fixed()) + list(every_text_fixed()) + list(every_invalid_fixed()), judge)
        if rec.violations:
            return
        runner.direct_run(ctx, rec, "all-neighbours-of-fixed-programs", fixed_neighbours(), judge_neighbours)
        if rec.violations:
            return
    runner.hyp_run(ctx, rec, "histories", histories(), judge, ctx.n(400, 2500))
    if rec.violations:
        return
    runner.hyp_run(ctx, rec, "neighbour-texts", neighbour_cases(), judge_neighbours, ctx.n(150, 1000))
