"""C05 - literals reach run time with their exact value and type."""
import math

from hypothesis import strategies as st

from .. import refinterp, runner, sut
from .. import model as M

ID = "C05"
RULE = ("Literal contents: strings over an alphabet with the other quote, backslash sequences spelled out (\\t \\n \\\\ \\x41), "
        "digits only, leading zeros, numeric look-alikes (inf, nan, 1e5, 0x10, 1_000, ' 12 ', +5, .5), True/None, empty, "
        "non-ASCII, // and /*; integers of 1-40 digits incl. 2^53+-1, leading zeros and negatives; decimals with up to 20 "
        "digits on each side, negatives; tuples / nested tuples of those. Each literal is placed as group definition, as "
        "right and left predicate operand (== != and, for numbers, >= <), as tuple member (plain, one-element, nested) and as "
        "salt. Oracles: (i) routing equals the reference interpreter on inputs equal to the literal and minimally different "
        "(string vs its numeric reading, n vs float(n) vs n+-1, raw backslash sequence vs the control character); (ii) the "
        "returned group has exactly the literal's value and type (repr-equal for floats); (iii) a salt written with ' or \" "
        "gives identical assignments over 64 units x 16 groups, minimally different salts give different ones. Non-trivial = "
        "literal that is not a plain lower-case word or a small int; distinct by literal.")
RULE += (' Since round 7: integer literals of up to 4300 digits; unhashable values asked about membership in literal tuples.')
RULE += (' Since rounds 14-15: decimal literals decided by digits far to the right (midpoints between doubles, 30-1100 digit expansions); allow-lists of 16-300 members.')
ASSUMPTIONS = [
    "decimal literals large enough to overflow a double and ints beyond CPython's int<->str digit limit are outside the bound",
    "string literals contain no line-break character and not their own delimiter (the language has no escapes)",
    "the inequality of assignment vectors for different salts has false-alarm probability 16^-64",
]
SHARDS = {"quick": 1, "thorough": 16}

SPECIAL_STRS = ["Washington, DC", "a,b", ", ", ",", "x, y)", "(1, 2)", "1, 2", "1", "2.0", "02134", "007", "0", "18", "-3", "+5", "1e5", "1E3", "inf", "-inf", "Infinity", "nan", "NaN", "0x10", "1_000", " 12 ",
                ".5", "5.", "1.0", "3.14", "9007199254740993", "True", "False", "None", "", " ", "it's", 'say "hi"', "C:\\temp",
                "C:\\new", "a\\\\b", "\\x41", "\\", "a\\", "\\'", "tab\there", "//", "/* x */", "a//b", "é", "日本", "١٢", "٣", "ß",
                "A", "a b", "'+str(1)+'", "{0}", "%s", "x" * 200, "\\u0041", "\\N{BULLET}", "0.1", "1e-5", "00", "-0", "0e0", "1.",
                "١", "1 ", "\t1", "a\rb", "\r", "x\x0cy", "\x0b", "\x85", "\u2028", "\x1c1", "1\r", "\r\r", "\ufb01", "x\u00b2", "\u2126", "\uff11\uff12", "\uff02", "\uff07x", "\u212b", "e\u0301", "\u00e9",
                "\u33a1", "\u2460", "\uff76", "\u1e9b\u0323"]
SPECIAL_INTS = ["0", "1", "7", "18", "007", "0000", "9007199254740992", "9007199254740993", "9007199254740991", "18446744073709551616",
                "123456789012345678901234567890", "1" + "0" * 39, "9" * 40, "2147483648", "4294967296", "100000000000000000000001",
                # hundreds to thousands of digits, up to CPython's int <-> text limit of 4300
                "1" + "0" * 999, "1" + "0" * 1000, "9" * 1500, "123456789" * 278, "7" * 4300, "5" * 333]
SPECIAL_FLOATS = ["0.0", "1.5", "0.1", "3.14", "18.0", "1.0", "0.30000000000000004", "9007199254740993.0", "2.50", "007.500",
                  "0.000000000000000000001", "12345678901234567890.12345678901234567890", "99999999999999999999.9", "0.5",
                  "1.7976931348623157", "4.9406564584124654", "100.0", "0.10000000000000000555"]


def _exact_decimal(fr, below=False):
    """finite decimal expansion of a Fraction whose denominator is a power of two (below: lowered by one unit six places further)"""
    k = fr.denominator.bit_length() - 1
    assert fr.denominator == 1 << k
    n = fr.numerator * 5 ** k  # fr = n / 10^k
    if below or not k:
        n, k = n * 10 ** 6 - (1 if below else 0), k + 6
    digits = str(n).rjust(k + 1, "0")
    return digits[:-k] + "." + digits[-k:]


def _long_floats():
    """decimal literals whose value is decided by digits far to the right: the exact expansion of the midpoint between two adjacent
    doubles (a tie), the same plus a final 1 (just above) and with its last digit lowered (just below); tiny decimals written out in
    full; long integer parts.  The oracle is float(text), i.e. the correctly rounded double"""
    import math
    from fractions import Fraction

    out = []
    for x in (1.0, 0.1, 0.3, 123.456, 9007199254740992.0, 2.5e-7, 1e22, 0.9999999999999999, 5e-324, 2.2250738585072014e-308):
        mid = (Fraction(x) + Fraction(math.nextafter(x, math.inf))) / 2
        t = _exact_decimal(mid)
        out += [t, t + "1", _exact_decimal(mid, below=True), t + "0" * 30]
    out += ["0." + "0" * z + d for z in (30, 39, 40, 41, 44, 60, 100, 322, 323, 330, 400) for d in ("1", "5", "25")]
    out += ["1" + "0" * z + ".5" for z in (20, 31, 32, 33, 40, 64, 300, 308)] + ["9" * 40 + "." + "9" * 40, "0" * 50 + "1." + "0" * 50 + "1"]
    return out


LONG_FLOATS = _long_floats()


def _str_lit(s, q=None):
    if q is None:
        q = "'" if '"' in s else '"'
    return M.lit_str(s, q)


@st.composite
def scalar_lits(draw):
    k = draw(st.integers(0, 9))
    if k < 3:
        s = draw(st.sampled_from(SPECIAL_STRS))
    elif k < 5:
        s = draw(st.text(alphabet=st.sampled_from(list("abAB01 '\\/*-+._e\"tn") + ["é", "日", "\t"]), max_size=10))
    elif k < 6:
        s = draw(st.text(alphabet=st.characters(exclude_categories=["Cs"], exclude_characters=M.LINE_BREAKS), max_size=8))
    elif k < 8:
        src = draw(st.one_of(st.sampled_from(SPECIAL_INTS),
                             st.integers(1, 40).flatmap(lambda n: st.text(alphabet="0123456789", min_size=n, max_size=n))))
        return M.lit_int(src, draw(st.integers(0, 3)) == 0)
    else:
        src = draw(st.one_of(st.sampled_from(SPECIAL_FLOATS), st.sampled_from(LONG_FLOATS),
                             st.tuples(st.text(alphabet="0123456789", min_size=1, max_size=3), st.integers(20, 70),
                                       st.text(alphabet="0123456789", min_size=1, max_size=70)).map(lambda t: t[0] + "." + "0" * t[1] + t[2]),
                             st.tuples(st.text(alphabet="0123456789", min_size=1, max_size=20),
                                       st.text(alphabet="0123456789", min_size=1, max_size=20)).map(lambda t: t[0] + "." + t[1])))
        return M.lit_float(src, draw(st.integers(0, 3)) == 0)
    if '"' in s and "'" in s:
        s = s.replace(draw(st.sampled_from(['"', "'"])), "")
    q = "'" if '"' in s else ('"' if "'" in s else draw(st.sampled_from(['"', "'"])))
    return M.lit_str(s, q)


@st.composite
def cases(draw):
    lit = draw(scalar_lits())
    other = draw(scalar_lits())
    return {"lit": lit, "other": other}


# --------------------------------------------------------------------------- neighbours
def _neighbours(v):
    res = [v]
    if isinstance(v, str):
        res += [v + " ", " " + v, v[:-1], v.swapcase(), v + "0", "r" + v]
        for conv in (int, float):
            try:
                x = conv(v)
                res += [x, str(x)]
            except (ValueError, OverflowError):
                pass
        if "\\" in v:
            try:
                res.append(v.encode("latin-1", "backslashreplace").decode("unicode_escape"))
            except Exception:
                pass
        res += [None, 0]
        try:
            res += [v.encode("utf-8"), bytearray(v.encode("utf-8"))]  # the same characters as bytes are a different value
        except UnicodeEncodeError:
            pass
    elif isinstance(v, int):
        res += [v + 1, v - 1, -v, str(v)]
        try:
            res += [v + 0.5, float(v), math.nextafter(float(v), math.inf)]
        except OverflowError:
            pass  # beyond the range of a double: no float neighbours
    elif isinstance(v, float):
        res += [math.nextafter(v, math.inf), math.nextafter(v, -math.inf), v + 1.0, repr(v), -v]
        if v == int(v):
            res += [int(v), int(v) + 1]
    if isinstance(v, (int, float)) and not isinstance(v, bool) and not (isinstance(v, int) and v.bit_length() > 3000):
        # the same number - or its nearest neighbours - as a Decimal / Fraction (exact comparison, no detour through a double)
        import decimal
        import fractions

        try:
            res += [decimal.Decimal(v), fractions.Fraction(v), decimal.Decimal(repr(v)), fractions.Fraction(repr(v)), fractions.Fraction(v) + fractions.Fraction(1, 10 ** 30)]
            if isinstance(v, int):
                res += [decimal.Decimal(v + 1), fractions.Fraction(2 * v + 1, 2)]
        except (ValueError, OverflowError, decimal.InvalidOperation):
            pass
    out = []
    for x in res:
        if not any(type(x) is type(y) and (x == y) and repr(x) == repr(y) for y in out):
            out.append(x)
    return out


def _interesting(lit):
    v = M.lit_value(lit)
    if lit["t"] == "str":
        return not (v.isalpha() and v.islower() and v.isascii())
    if lit["t"] == "int":
        return len(lit["src"]) > 3 or lit["src"].startswith("0") or lit["neg"]
    return True


R_EQ = M.ret([(M.lit_str("eq"), "1")])
R_NE = M.ret([(M.lit_str("ne"), "1")])


def _run_prog(prog, envs, viol, what):
    text = M.render(prog)
    res = sut.compile_text(text)
    if res[0] != "ok":
        viol.append("%s: does not compile: %s %s | %s" % (what, res[1], res[2], text))
        return
    for env in envs:
        try:
            exp = refinterp.run(prog, env)
        except TypeError:
            continue  # type-incompatible probe (ordering across types): outside the quantifier
        act = sut.call(res[1], env)
        if exp[0] == "return":
            allowed = refinterp.group_values(M.returns(prog["body"])[exp[1]])
            ok = act[0] == "group" and any(sut.same_value(act[1], a) for a in allowed)
        else:
            ok = act[0] == "unroutable"
        if not ok:
            viol.append("%s: inputs=%r: reference %r, evaluator %r | %s" % (what, env, exp, act, text))


def _salt_vector(salt, q):
    body = M.ret([(M.lit_str("g%d" % j), "1") for j in range(16)])
    prog = M.program("s", body, salt=salt, splitters=["uid"], salt_q=q)
    res = sut.compile_text(M.render(prog))
    if res[0] != "ok":
        return None, "does not compile: %s %s | %s" % (res[1], res[2], M.render(prog))
    out = []
    for i in range(64):
        a = sut.call(res[1], {"uid": "unit-%d" % i})
        if a[0] != "group":
            return None, "evaluation failed: %r" % (a,)
        out.append(a[1])
    return out, None


def judge(case):
    lit, other = case["lit"], case["other"]
    v = M.lit_value(lit)
    ov = M.lit_value(other)
    viol = []
    tags = ["literal:" + lit["t"]]
    nb = _neighbours(v)
    # (ii) group definition: exact value and type
    prog = M.program("e", M.ret([(lit, "1")]))
    res = sut.compile_text(M.render(prog))
    if res[0] != "ok":
        viol.append("group definition: does not compile: %s %s | %s" % (res[1], res[2], M.render(prog)))
    else:
        a = sut.call(res[1], {})
        if a[0] != "group" or not sut.same_value(a[1], v):
            viol.append("group definition %s returned %r (%s), expected %r (%s)" % (M.tokens_text(M.lit_tokens(lit)), a[1:],
                        type(a[1]).__name__ if a[0] == "group" else "-", v, type(v).__name__))
    prog = M.program("e", M.ret([(other, "0"), (lit, "2"), (other, "0.0")]), splitters=["u"])
    res = sut.compile_text(M.render(prog))
    if res[0] == "ok":
        a = sut.call(res[1], {"u": "x"})
        if a[0] != "group" or not sut.same_value(a[1], v):
            viol.append("group definition (between zero-weight groups) returned %r, expected %r" % (a[1:], v))
    # (ii-b) ... also when the literal arrives through recompile() on a live evaluator that holds the same program with the other
    # literal, handed over as a temporary whose object id is recycled (only the literals differ, padded to the same size)
    t_other, t_lit = M.render(M.program("e", M.ret([(other, "1")]))), M.render(M.program("e", M.ret([(lit, "1")])))
    res = sut.compile_text(t_other)
    if res[0] == "ok" and t_other != t_lit:
        from .. import common

        try:
            common.recycled_recompile(res[1], t_other, t_lit)
            a = sut.call(res[1], {})
            if a[0] != "group" or not sut.same_value(a[1], v):
                viol.append("group definition %s reached a live evaluator through recompile() (it held %s): returned %r, expected %r (%s)"
                            % (M.tokens_text(M.lit_tokens(lit)), M.tokens_text(M.lit_tokens(other)), a[1:], v, type(v).__name__))
        except Exception as e:
            viol.append("recompile to the program with group definition %s raised %s: %s" % (M.tokens_text(M.lit_tokens(lit)), type(e).__name__, e))
    # (i) predicate operands
    envs = [{"x": n} for n in nb]
    x = M.ident("x")
    # the compared field may at the same time be a splitter (its text goes into the key, its VALUE is compared)
    _run_prog(M.program("e", M.if_([(M.cmp_(x, "==", lit), R_EQ)], R_NE), splitters=["x"]), envs, viol, "right operand of == (field is also a splitter)")
    _run_prog(M.program("e", M.if_([(M.cmp_(x, "in", M.tup([other, lit])), R_EQ)], R_NE), salt="s", splitters=["x", "y"]),
              [dict(e, y=1) for e in envs] + [{"x": ov, "y": 2}], viol, "tuple member (field is also a splitter)")
    _run_prog(M.program("e", M.if_([(M.cmp_(x, "==", lit), R_EQ)], R_NE)), envs, viol, "right operand of ==")
    _run_prog(M.program("e", M.if_([(M.cmp_(lit, "==", x), R_EQ)], R_NE)), envs, viol, "left operand of ==")
    _run_prog(M.program("e", M.if_([(M.cmp_(x, "!=", lit), R_NE)], None)), envs, viol, "right operand of !=")
    if lit["t"] != "str":
        num_envs = [e for e in envs if isinstance(e["x"], (int, float)) and not isinstance(e["x"], bool)]
        _run_prog(M.program("e", M.if_([(M.cmp_(x, ">=", lit), R_EQ)], R_NE)), num_envs, viol, "right operand of >=")
        _run_prog(M.program("e", M.if_([(M.cmp_(lit, "<", x), R_EQ)], R_NE)), num_envs, viol, "left operand of <")
    else:
        str_envs = [e for e in envs if isinstance(e["x"], str)]
        _run_prog(M.program("e", M.if_([(M.cmp_(x, "<=", lit), R_EQ)], R_NE)), str_envs, viol, "right operand of <=")
        _run_prog(M.program("e", M.if_([(M.cmp_(x, "in", lit), R_EQ)], R_NE)), str_envs, viol, "right operand of in (substring)")
    # tuple member: plain, one-element, nested
    # ... also asked about values that cannot be hashed (a list, a dict): membership in a tuple is decided by ==, so they are
    # simply not members
    unhashable = [{"x": [v]}, {"x": [v, ov]}, {"x": {"k": v}}, {"x": []}]
    _run_prog(M.program("e", M.if_([(M.cmp_(x, "in", M.tup([other, lit])), R_EQ)], R_NE)), envs + [{"x": ov}] + unhashable, viol, "tuple member")
    _run_prog(M.program("e", M.if_([(M.cmp_(x, "not in", M.tup([lit])), R_NE)], R_EQ)), envs + unhashable, viol, "one-element tuple member")
    tenvs = [{"x": (n, ov)} for n in nb] + [{"x": [v, ov]}, {"x": (v,)}]
    _run_prog(M.program("e", M.if_([(M.cmp_(x, "==", M.tup([lit, other])), R_EQ)], R_NE)), tenvs, viol, "member of a compared tuple")
    # tuples of 3 and 4 members: the ORDER of the members matters for == and for nested membership
    t3 = M.tup([other, lit, M.lit_int("7")])
    t4 = M.tup([lit, M.lit_int("1"), other, M.lit_str("z")])
    _run_prog(M.program("e", M.if_([(M.cmp_(x, "==", t3), R_EQ)], R_NE)),
              [{"x": (ov, v, 7)}, {"x": (ov, 7, v)}, {"x": (7, v, ov)}, {"x": (v, ov, 7)}], viol, "member of a compared 3-tuple")
    _run_prog(M.program("e", M.if_([(M.cmp_(x, "in", M.tup([t4, t3])), R_EQ)], R_NE)),
              [{"x": (v, 1, ov, "z")}, {"x": (v, "z", ov, 1)}, {"x": (ov, v, 7)}, {"x": (ov, 7, v)}, {"x": ("z", ov, 1, v)}], viol,
              "member of nested 3- and 4-tuples")
    nenvs = [{"x": (n,)} for n in nb] + [{"x": v}]
    _run_prog(M.program("e", M.if_([(M.cmp_(x, "in", M.tup([M.tup([lit]), M.tup([other, lit])])), R_EQ)], R_NE)), nenvs + [{"x": (ov, v)}] + unhashable, viol,
              "member of a nested tuple")
    # (iii) salt
    if lit["t"] == "str":
        s = v
        tags.append("salt")
        if '"' not in s and "'" not in s:
            v1, e1 = _salt_vector(s, '"')
            v2, e2 = _salt_vector(s, "'")
            if e1 or e2:
                viol.append("salt %r: %s" % (s, e1 or e2))
            elif v1 != v2:
                viol.append("salt %r gives different assignments when written with ' and with \"" % (s,))
        base, e0 = _salt_vector(s, lit["q"])
        if e0:
            viol.append("salt %r: %s" % (s, e0))
        else:
            twins = [s + " ", s.swapcase() if s.swapcase() != s else s + "x", s + "\t"]
            if "\\" in s:
                try:
                    t = s.encode("latin-1", "backslashreplace").decode("unicode_escape")
                    if t != s and not any(c in t for c in M.LINE_BREAKS):
                        twins.append(t)
                        tags.append("salt:backslash-vs-control-char")
                except Exception:
                    pass
            for t in twins:
                if lit["q"] in t:
                    continue
                vt, et = _salt_vector(t, lit["q"])
                if et:
                    viol.append("salt %r: %s" % (t, et))
                elif vt == base:
                    viol.append("salts %r and %r give identical assignments over 64 units x 16 groups" % (s, t))
    nt = _interesting(lit)
    if lit["t"] == "str":
        if "\\" in v:
            tags.append("str:backslash")
        if "'" in v or '"' in v:
            tags.append("str:quote")
        if not v.isascii():
            tags.append("str:non-ascii")
        try:
            float(v)
            tags.append("str:numeric-look-alike")
        except ValueError:
            pass
    elif lit["t"] == "int" and len(lit["src"]) > 15:
        tags.append("int:>2^53")
    return {"viol": viol[:6], "nontrivial": nt, "tags": tags, "key": lit,
            "sample": {"literal": M.tokens_text(M.lit_tokens(lit)), "value": repr(v)[:80], "probe_inputs": [repr(n)[:40] for n in nb[:6]]}}


def fixed_cases():
    for s in SPECIAL_STRS:
        if not ('"' in s and "'" in s) and not any(c in s for c in M.LINE_BREAKS):
            yield {"lit": _str_lit(s), "other": M.lit_int("1")}
    for s in SPECIAL_INTS:
        yield {"lit": M.lit_int(s), "other": M.lit_str("o")}
        yield {"lit": M.lit_int(s, True), "other": M.lit_float("0.5")}
    for s in LONG_FLOATS:
        yield {"lit": M.lit_float(s), "other": M.lit_float("0.5")}
    for s in SPECIAL_FLOATS:
        yield {"lit": M.lit_float(s), "other": M.lit_str("o")}
        yield {"lit": M.lit_float(s, True), "other": M.lit_int("3")}


def _lit_of_py(v):
    if isinstance(v, tuple):
        return M.tup([_lit_of_py(x) for x in v])
    return M.lit_of(v)


TUPLES = [
    # runs of consecutive integers (a membership test, not a range test: 3.5 is no member), in any order, with and without gaps
    (3, 4, 5, 6), (6, 5, 4, 3), (1, 2, 3), (0, 1, 2, 3, 4, 5, 6, 7, 8, 9), (-1, 0, 1), (2, 4, 6), (1, 2, 4), (10, 11, 12, 14), (1.0, 2.0, 3.0), (1, 2.0, 3),
    (0.5, 1.5, 2.5), ("a", "b", "c"), ("1", "2", "3"), (1, "2", 3),
    # tuples of pairs that look like the keyword arguments of something (a model, a dict)
    (("name", "alice"), ("plan", "pro")), (("name", "uid"),), (("name", "x"), ("name", "y")), (("group_definition", "a"), ("weight", 1)),
    (("left_term", 1), ("operator", "=="), ("right_term", 2)), (("id", "e"), ("conditions", 1)), (("k", "v"),), ((1, 2), (3, 4)), (("a", 1), ("b", 2), ("c", 3)),
    (("name",),), ("name", "uid"), (("name", "uid", "x"),),
    # long lists (allow-lists of ids, postal codes, versions): 16 .. 300 members of mixed digit counts and signs, unsorted, with
    # repeats; of one type and mixed
    tuple((i * 7919) % 1000 - 300 for i in range(16)), tuple((i * 104729) % 100000 for i in range(40)), tuple(range(100, -1, -7)), tuple(10 ** (i % 19) + i for i in range(60)),
    tuple(-(2 ** i) for i in range(20)) + tuple(2 ** i for i in range(20)), tuple(range(300)), tuple(float(i) / 4 for i in range(-20, 20)),
    tuple(str((i * 7919) % 1000) for i in range(32)), tuple(i if i % 3 else str(i) for i in range(24)), tuple([5] * 16 + [3, 10, 2]), tuple(2 ** 53 + i for i in range(17)),
]


def judge_tuple(case):
    """a tuple literal keeps its members (value, type, order, nesting) as the right operand of in / not in and as either
    operand of == / !=; probed with its members, values between / next to them, its own value and re-shaped look-alikes"""
    t = M.dec(case["tuple"])
    lit = _lit_of_py(t)
    x = M.ident("x")
    viol = []
    flat = []

    def walk(v):
        for e in v:
            if isinstance(e, tuple):
                flat.append(e)
                walk(e)
            else:
                flat.append(e)
    walk(t)
    probes = list(t) + flat + [t, list(t), t[::-1], t[:-1], t + (0,), None, "", "name", "uid", 0, {"name": "uid"}]
    if all(isinstance(q, tuple) and len(q) == 2 for q in t):
        try:
            probes.append(dict(t))
        except (TypeError, ValueError):
            pass
    nums = sorted({e for e in flat if isinstance(e, (int, float)) and not isinstance(e, bool)})
    for a, b in zip(nums, nums[1:]):
        probes += [(a + b) / 2, math.nextafter(float(a), math.inf), math.nextafter(float(b), -math.inf)]
    if nums:
        probes += [nums[0] - 0.5, nums[-1] + 0.5, float(nums[0]), str(nums[0]), nums[0] - 1, nums[-1] + 1]
    envs = [{"x": p, "uid": "u-17"} for p in probes]
    _run_prog(M.program("e", M.if_([(M.cmp_(x, "in", lit), R_EQ)], R_NE)), envs, viol, "tuple as the right operand of in")
    _run_prog(M.program("e", M.if_([(M.cmp_(x, "not in", lit), R_NE)], R_EQ), splitters=["uid"]), envs, viol, "tuple as the right operand of not in")
    _run_prog(M.program("e", M.if_([(M.cmp_(x, "==", lit), R_EQ)], R_NE)), envs, viol, "tuple as the right operand of ==")
    _run_prog(M.program("e", M.if_([(M.cmp_(lit, "!=", x), R_NE)], R_EQ), splitters=["uid"]), envs, viol, "tuple as the left operand of !=")
    _run_prog(M.program("e", M.if_([(M.cmp_(x, "in", M.tup([lit, M.lit_int("0")])), R_EQ)], R_NE)), envs, viol, "tuple as a member of a tuple")
    return {"viol": viol[:6], "nontrivial": True, "tags": ["tuple-literal"], "key": case["tuple"], "sample": {"tuple": repr(t)}}


def judge_case(record):
    c = record["case"]
    return (judge_tuple(c) if "tuple" in c else judge(c))["viol"]


def run(ctx, rec):
    if ctx.shard == 0:
        runner.direct_run(ctx, rec, "catalogue", fixed_cases(), judge)
        if rec.violations:
            return
        runner.direct_run(ctx, rec, "tuple-catalogue", [{"tuple": M.enc(t)} for t in TUPLES], judge_tuple)
        if rec.violations:
            return
    runner.hyp_run(ctx, rec, "generated-literals", cases(), judge, ctx.n(300, 2500))
