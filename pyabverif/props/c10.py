"""C10 - one hash position per unit: weight changes move only units at the boundary."""
from fractions import Fraction
from itertools import accumulate

from hypothesis import strategies as st

from .. import common, gen, runner, sut
from .. import model as M

ID = "C10"
RULE = ("Families of weight vectors over the same 12-40 real unit ids (str/int), built as chains ordered by prefix shares: "
        "two-group ramps (1%..99%), and vectors obtained by moving weight from a later to an earlier group (exact integer "
        "arithmetic); each vector is evaluated (a) as its own program with its own labels and (b) as one branch of a single "
        "program selected by a condition field, plus (c) the public choice function called directly with int and float weight lists and with cum_weights, (d) one long-lived evaluator recompile()d through the whole family (labels that look like URLs). Oracles: (i) monotone coupling - along the chain no unit moves to a "
        "later-declared group; (ii) for each unit the position intervals [P_(g-1), P_g) implied by every observed (vector, "
        "group) - across programs, labels and branches - have a non-empty intersection (widened by 1e-12). No reference hash "
        "is used. A second part locates a unit's grid point black-box (two-group ramps through the DSL) and evaluates a ramp in steps of 1e-7 of the hash space that straddles it (weights with 8-10 significant digits). Non-trivial = case in which at least one unit changes group along the family; distinct by (units, family, salt).")
RULE += (' Since rounds 6-7: zero-padded and 1e-9-scaled spellings of the same shares; a refused deploy between two steps of the live evaluator.')
RULE += (' Since rounds 14-15: 30-90 character weight spellings; ramps whose revisions alternately stand alone and sit inside a targeting condition (several splitters, fresh and long-lived evaluators).')
ASSUMPTIONS = [
    "prefix shares are compared as exact Fractions of the source-text weights; intervals are widened by 1e-12 for float rounding",
]
SHARDS = {"quick": 1, "thorough": 16}

TOL = Fraction(1, 10 ** 12)


@st.composite
def families(draw):
    kind = draw(st.sampled_from(["ramp", "ramp", "move", "move", "decimal-ramp", "grow", "grow"]))
    fam = []
    if kind == "ramp":
        ps = sorted(draw(st.lists(st.one_of(st.integers(1, 99), st.sampled_from([0, 0, 100])), min_size=3, max_size=7, unique=True)))
        fam = [[str(p), str(100 - p)] for p in ps]  # incl. a ramp that starts at 0% (an explicit weight 0) or ends at 100%
    elif kind == "decimal-ramp":
        ps = sorted(draw(st.lists(st.integers(1, 999), min_size=3, max_size=6, unique=True)))
        fam = [["%d.%d" % (p // 10, p % 10), "%d.%d" % ((1000 - p) // 10, (1000 - p) % 10), "0"] for p in ps]
    elif kind == "grow":
        # totals change and are not multiples of each other: weight is added to the first group or removed from the last
        # one, both of which raise (or keep) every leading cumulative share
        n = draw(st.integers(2, 5))
        w = [draw(st.integers(1, 9)) for _ in range(n)]
        fam = [[str(x) for x in w]]
        for _ in range(draw(st.integers(2, 5))):
            w = list(w)
            if draw(st.booleans()) and w[-1] > 1:
                w[-1] -= draw(st.integers(1, w[-1] - 1))
            else:
                w[0] += draw(st.integers(1, 7))
            fam.append([str(x) for x in w])
    else:
        n = draw(st.integers(2, 6))
        w = [draw(st.integers(0, 50)) for _ in range(n)]
        if sum(w) == 0:
            w[-1] = 10
        w[-1] += draw(st.integers(5, 60))
        fam = [[str(x) for x in w]]
        for _ in range(draw(st.integers(2, 5))):
            donors = [j for j in range(1, n) if w[j] > 0]
            if not donors:
                break
            j = draw(st.sampled_from(donors))
            i = draw(st.integers(0, j - 1))
            d = draw(st.integers(1, w[j]))
            w = list(w)
            w[i] += d
            w[j] -= d
            fam.append([str(x) for x in w])
    # the chain must be ordered by prefix shares (checked exactly)
    for a, b in zip(fam, fam[1:]):
        assert len(a) == len(b) and all(x <= y for x, y in zip(_prefix(a), _prefix(b))), (a, b)
    # rescale some vectors (same shares, different total): the position must not depend on the total
    scaled = []
    for ws in fam:
        k = draw(st.sampled_from([1, 1, 2, 3, 10, 7, "nano"]))
        if k == "nano":
            # the same shares written in the smallest expressible unit (1e-9): a position must not depend on the magnitude
            if all("." not in w and int(w) < 10 ** 9 for w in ws):
                ws = ["0.%09d" % int(w) for w in ws]
        elif k != 1 and all("." not in w for w in ws):
            ws = [str(int(w) * k) for w in ws]
        elif k == 10 and all("." not in w for w in ws):
            ws = ["%d.%d" % (int(w) // 10, int(w) % 10) for w in ws]
        if draw(st.integers(0, 3)) == 0:
            # column-aligned spelling: integer parts zero-padded to one width (09 / 91 -> 010 / 090); still decimal numbers
            width = max(len(w.split(".")[0]) for w in ws) + draw(st.integers(0, 1))
            ws = [w.split(".")[0].rjust(width, "0") + ("." + w.split(".")[1] if "." in w else "") for w in ws]
        scaled.append(ws)
    fam = scaled
    units = draw(st.lists(st.one_of(st.integers(0, 10 ** 6),
                                    st.text(alphabet="abcdefghijklmnopqrstuvwxyz0123456789", min_size=0, max_size=10),
                                    st.sampled_from(["", 0, 0.0, False, None, "0", " "])),
                          min_size=12, max_size=40, unique_by=lambda v: (type(v).__name__, str(v))))
    if draw(st.booleans()) and "" not in units:
        units[0] = ""  # the unit whose key is the empty string (a falsy id must still be hashed, not drawn at random)
    salt = draw(st.sampled_from([None, None, "s1", "exp_v2", ""]))
    case = {"family": fam, "units": [M.enc(u) for u in units], "salt": salt, "kind": kind}
    if len(fam[0]) >= 3 and draw(st.integers(0, 2)) == 0:
        # the stand-alone programs reuse a label on several slices ("A", "B", "A"): different labels, same weights
        pool = draw(st.sampled_from([["A", "B"], ["A", "B", "C"], ["A"]]))
        case["solo_labels"] = [draw(st.sampled_from(pool)) for _ in fam[0]]
    return case


def _prefix(ws):
    fr = [Fraction(w) for w in ws]
    t = sum(fr)
    return [Fraction(0)] + [c / t for c in accumulate(fr)]


def judge(case):
    fam = case["family"]
    units = [M.dec(u) for u in case["units"]]
    salt = case["salt"]
    viol = []
    tags = ["family:" + case["kind"]] + (["repeated-labels"] if case.get("solo_labels") else [])
    # (a) one program per vector with its own labels; (b) one routed program with all vectors as branches
    evs = []
    for vi, ws in enumerate(fam):
        if case.get("solo_labels"):
            body = M.ret([(M.lit_str(case["solo_labels"][gi]), w) for gi, w in enumerate(ws)])
        else:
            body = M.ret([(M.lit_str("v%d_g%d" % (vi, gi)), w) for gi, w in enumerate(ws)])
        res = sut.compile_text(M.render(M.program("solo%d" % vi, body, salt=salt, splitters=["uid"])))
        if res[0] != "ok":
            return {"viol": ["does not compile: %s %s" % res[1:]], "tags": tags}
        evs.append(res[1])
    branches = [(M.cmp_(M.ident("route"), "==", M.lit_int(str(vi))),
                 M.ret([(M.lit_str("r%d_g%d" % (vi, gi)), w) for gi, w in enumerate(ws)])) for vi, ws in enumerate(fam)]
    routed_prog = M.program("routed", M.if_(branches, None), salt=salt, splitters=["uid"])
    res = sut.compile_text(M.render(routed_prog))
    if res[0] != "ok":
        return {"viol": ["does not compile: %s %s" % res[1:]], "tags": tags}
    routed = res[1]
    # the same routed program rendered a SECOND time by one code generator (and again from the same parsed AST): all branches
    # must still see the position the evaluator sees
    try:
        routed_again, same = common.rendered_again(M.render(routed_prog), "routed")
        for u in units[:12]:
            for vi in range(len(fam)):
                a, b = sut.call(routed, {"uid": u, "route": vi}), sut.call(routed_again, {"uid": u, "route": vi})
                if a != b:
                    viol.append("unit %r, branch %d: the evaluator gives %r, the function from the generator's second generate() gives %r | %s"
                                % (u, vi, a[1:], b[1:], M.render(routed_prog)[:160]))
                    break
            if viol:
                break
    except Exception as e:
        viol.append("rendering the routed program a second time failed: %s: %s" % (type(e).__name__, e))
    # (d) one long-lived evaluator pushed through the whole family by recompile(), labels that look like URLs ("//" inside a
    # string) - it must agree with the stand-alone programs at every step
    live = None
    live_idx = {}
    # (in every third family the revisions come under changing experiment names: checkout_v1 -> checkout_v2 ...)
    renamed = sum(len(w) for ws_ in fam for w in ws_) % 3 == 0
    for vi, ws in enumerate(fam):
        text = M.render(M.program("live_v%d" % vi if renamed and vi % 2 else "live", M.ret([(M.lit_str("https://cdn.example/g%d.js" % gi), w) for gi, w in enumerate(ws)]),
                                  salt=salt, splitters=["uid"]))
        try:
            if live is None:
                live = sut.evaluator_mod().ExperimentEvaluator(text)
            else:
                if vi % 2:
                    # a deploy that goes wrong in between (a typo in the new weights: the text is refused) must not keep the
                    # next, corrected deploy from taking effect
                    try:
                        live.recompile(text.replace(" weighted ", " weighted , ", 1))
                    except Exception:
                        pass
                if vi % 3 == 2:
                    live.recompile(text)
                else:
                    common.recycled_recompile(live, prev_text, text)  # rendered anew on every tick: the object id is recycled
            prev_text = text
        except Exception as e:
            viol.append("live evaluator: recompile to %r raised %s: %s" % (ws, type(e).__name__, e))
            break
        for u in units[:16]:
            a = sut.call(live, {"uid": u})
            if a[0] == "group" and isinstance(a[1], str) and a[1].startswith("https://cdn.example/g"):
                live_idx[(vi, repr(u))] = int(a[1][len("https://cdn.example/g"):-3])
            else:
                viol.append("live evaluator: unit %r weights %r: unexpected outcome %r" % (u, ws, a))
    # a ramp that starts at 0% declares a zero share: nobody may be in that group, whatever their position
    for vi, ws in enumerate(fam):
        zero = [gi for gi, w in enumerate(ws) if float(w) == 0]
        if not zero or case.get("solo_labels"):
            continue
        for j in range(300):
            a = sut.call(evs[vi], {"uid": "zero-probe-%d" % j})
            if a[0] == "group" and isinstance(a[1], str) and a[1].startswith("v%d_g" % vi) and int(a[1][len("v%d_g" % vi):]) in zero:
                viol.append("unit %r is in group %d of %r, whose declared share is 0" % ("zero-probe-%d" % j, int(a[1][len("v%d_g" % vi):]), ws))
                break
    moved = 0
    for u in units:
        lo, hi = Fraction(0), Fraction(1)
        prev = None
        for vi, ws in enumerate(fam):
            a = sut.call(evs[vi], {"uid": u})
            b = sut.call(routed, {"uid": u, "route": vi})
            idxs = []
            if case.get("solo_labels"):
                # labels repeat: the routed twin (unique labels) tells the index, the stand-alone program must return the
                # label declared at that index
                pref = "r%d_g" % vi
                if b[0] != "group" or not (isinstance(b[1], str) and b[1].startswith(pref)):
                    viol.append("unit %r vector %r: unexpected outcome %r" % (u, ws, b))
                    continue
                i = int(b[1][len(pref):])
                want = case["solo_labels"][i]
                if a != ("group", want):
                    viol.append("unit %r, weights %r with labels %r: the twin with unique labels selects slice %d (label %r), this "
                                "program returned %r" % (u, ws, case["solo_labels"], i, want, a[1:]))
                idxs = [i, i]
                a = b
            for act, pref in (() if case.get("solo_labels") else ((a, "v%d_g" % vi), (b, "r%d_g" % vi))):
                if act[0] != "group" or not (isinstance(act[1], str) and act[1].startswith(pref)):
                    viol.append("unit %r vector %r: unexpected outcome %r" % (u, ws, act))
                    continue
                idxs.append(int(act[1][len(pref):]))
            if len(idxs) != 2:
                continue
            if idxs[0] != idxs[1]:
                viol.append("unit %r, weights %r: group index %d as its own program but %d as branch %d of a routed program "
                            "(the position depends on labels / branch)" % (u, ws, idxs[0], idxs[1], vi))
            i = idxs[0]
            li = live_idx.get((vi, repr(u)))
            if li is not None and li != i:
                viol.append("unit %r, weights %r: slice %d in a freshly built program but slice %d in the long-lived evaluator that "
                            "was recompile()d step by step through %r" % (u, ws, i, li, fam[:vi + 1]))
            P = _prefix(ws)
            lo = max(lo, P[i] - TOL)
            hi = min(hi, P[i + 1] + TOL)
            if prev is not None and i > prev:
                viol.append("unit %r moved to a later group (%d -> %d) although no prefix share decreased: %r -> %r"
                            % (u, prev, i, fam[vi - 1], ws))
            if prev is not None and i != prev:
                moved += 1
            prev = i
        if not lo < hi:
            viol.append("unit %r: no single position is consistent with its groups under %r (salt %r)" % (u, fam, salt))
    # the public choice function itself (int and float weight lists), one id string = one unit
    dc = sut.binning().deterministic_choice
    for u in units[:12]:
        key = str(u) if isinstance(u, str) else "direct:" + str(u)
        # a call without weights sees the same position as any weighted call: for n items it is item floor(u*n), i.e. the item
        # that equal weights select, and the first of n equal items gives way to the heavier first item of (2, 1, ..., 1) never
        for n in (2, 4, 5, 16):
            try:
                plain, equal, ramped = dc(key, list(range(n))), dc(key, list(range(n)), weights=[1] * n), dc(key, list(range(n)), weights=[2] + [1] * (n - 1))
            except Exception as e:
                viol.append("deterministic_choice(%r, %d items) raised %s: %s" % (key, n, type(e).__name__, e))
                break
            if plain != equal or ramped > equal:
                viol.append("deterministic_choice: id %r, %d items: no weights select #%d, equal weights #%d, first weight doubled #%d - one "
                            "position must explain all three" % (key, n, plain, equal, ramped))
                break
        for mode in ("as-written", "float", "cum"):
            lo, hi = Fraction(0), Fraction(1)
            prev = None
            buf = []  # ONE list object per ramp, edited in place from step to step (a long-lived caller's weights list)
            for vi, ws in enumerate(fam):
                buf[:] = [float(w) for w in ws] if mode == "float" else [float(w) if "." in w else int(w) for w in ws]
                nums = buf
                try:
                    if mode == "cum":
                        from itertools import accumulate as _acc
                        i = dc(key, list(range(len(ws))), cum_weights=list(_acc(nums)))
                    else:
                        i = dc(key, list(range(len(ws))), weights=nums)
                except Exception as e:
                    viol.append("deterministic_choice(%r, weights=%r) raised %s: %s" % (key, nums, type(e).__name__, e))
                    break
                P = _prefix(ws)
                lo = max(lo, P[i] - TOL)
                hi = min(hi, P[i + 1] + TOL)
                if prev is not None and i > prev:
                    viol.append("deterministic_choice: id %r moved to a later item (%d -> %d) although no prefix share decreased: "
                                "weights %r -> %r" % (key, prev, i, fam[vi - 1], nums))
                if prev is not None and i != prev:
                    moved += 1
                prev = i
            if not lo < hi:
                viol.append("deterministic_choice: id %r: no single position is consistent with its choices under %r (%s weights)"
                            % (key, fam, mode))
    if moved:
        tags.append("some-unit-moved")
    return {"viol": viol[:8], "nontrivial": moved > 0, "tags": tags, "key": [case["units"], fam, salt],
            "sample": {"family": fam, "units": units[:5], "salt": salt, "units_that_changed_group": moved}}


def judge_fine(case):
    """a ramp in steps of 1e-7 of the hash space straddling the unit's own (black-box located) position: weights with 8-10
    significant digits; any per-weight rounding of the emitted weights reorders or merges these boundaries"""
    from . import c03

    uid = M.dec(case["uid"])
    salt = case.get("salt")
    try:
        k, problem = c03.locate(uid, salt)
    except Exception as e:
        return {"viol": ["evaluation raised %s: %s for unit %r" % (type(e).__name__, e, uid)], "tags": ["fine-ramp"]}
    if problem:
        return {"viol": ["%s (unit %r)" % (problem, uid)], "tags": ["fine-ramp"]}
    u = Fraction(k, 2 ** 32)
    if not (Fraction(1, 100) < u < Fraction(99, 100)):
        return {"viol": [], "nontrivial": False, "tags": ["fine-ramp:skipped-extreme-position"], "skipped": "extreme-position"}
    base = int(u * 10 ** 7)  # floor to 7 decimals
    viol = []
    # the same unit under weights whose TOTAL is huge (2^33, integer weights) with the boundary half a grid point above /
    # below its position: a position must not depend on the magnitude of the weights
    for j16, want in ((2 * k + 1, "lo"), (2 * k - 1, "hi")):
        got = c03._two_group_big(j16, salt)(uid=uid)
        if got != want:
            viol.append("unit %r (grid point %d): with integer weights %d : %d (total 2^33) it must be in %r, got %r"
                        % (uid, k, j16, (1 << 33) - j16, want, got))
    prev = None
    fam = []
    for d in case["steps"]:
        a = Fraction(base + d, 10 ** 7) + Fraction(case["jitter"], 10 ** 10)
        wa = "%.10f" % float(a) if False else _dec10(a)
        wb = _dec10(1 - a)
        fam.append([wa, wb])
        res = sut.compile_text(M.render(M.program("fine", M.ret([(M.lit_str("A"), wa), (M.lit_str("B"), wb)]), salt=salt, splitters=["uid"])))
        if res[0] != "ok":
            return {"viol": ["does not compile: %r" % (res[1:],)], "tags": ["fine-ramp"]}
        got = sut.call(res[1], {"uid": uid})
        want = "A" if u < a else "B"
        if got != ("group", want):
            viol.append("unit %r sits at grid point %d (located black-box); with A weighted %s, B weighted %s its position is %s A's "
                        "share, yet the evaluator gave %r" % (uid, k, wa, wb, "inside" if want == "A" else "outside", got[1:]))
        i = 0 if got == ("group", "A") else 1
        if prev is not None and i > prev:
            viol.append("unit %r left group A although A's share only grew: %r -> %r" % (uid, fam[-2], fam[-1]))
        prev = i
    return {"viol": viol[:4], "nontrivial": True, "tags": ["fine-ramp"], "key": ["fine", case["uid"], salt, case["steps"], case["jitter"]],
            "sample": {"unit": uid, "located_grid_point": k, "ramp": fam[:3]}}


def _dec10(fr):
    n = fr * 10 ** 10
    assert n.denominator == 1
    n = int(n)
    return "%d.%010d" % (n // 10 ** 10, n % 10 ** 10)


@st.composite
def fine_cases(draw):
    uid = draw(st.one_of(st.integers(0, 10 ** 6), st.text(alphabet="abcdefghijklmnopqrstuvwxyz0123456789", min_size=1, max_size=8)))
    steps = sorted(draw(st.lists(st.integers(-6, 7), min_size=4, max_size=8, unique=True)))
    return {"uid": M.enc(uid), "salt": draw(st.sampled_from([None, "s1"])), "steps": steps, "jitter": draw(st.integers(0, 999))}


def fixed_families():
    """the same chains of shares in every spelling the generator knows (plain, multiplied, zero-padded, in 1e-9 units, as
    decimals), so that no spelling depends on the luck of a seed"""
    chains = [[[10, 90], [20, 80], [50, 50], [100, 0]], [[4, 5, 5, 4], [5, 5, 5, 4], [5, 5, 5, 1]], [[1, 9], [2, 8], [5, 5]], [[0, 1, 3], [1, 1, 2], [2, 1, 1], [3, 1, 0]]]
    spell = {"plain": lambda w: str(w), "x7": lambda w: str(7 * w), "padded": lambda w: "%04d" % w, "nano": lambda w: "0.%09d" % w,
             "tenths": lambda w: "%d.%d" % (w // 10, w % 10), "micro": lambda w: "0.%06d" % w, "x1e6": lambda w: str(w * 10 ** 6)}
    units = [M.enc(u) for u in ["u%d" % i for i in range(40)] + ["", 0, None, 3.5]]
    for ci, chain in enumerate(chains):
        for name, f in spell.items():
            yield {"family": [[f(w) for w in ws] for ws in chain], "units": units, "salt": [None, "s1", ""][ci % 3], "kind": "fixed-" + name}
        # a different spelling at every step of one chain
        names = sorted(spell)
        yield {"family": [[spell[names[(vi + gi) % len(names)]](1) if False else spell[names[vi % len(names)]](w) for gi, w in enumerate(ws)]
                          for vi, ws in enumerate(chain)], "units": units, "salt": "mixed", "kind": "fixed-mixed"}


def wide_families():
    """ramps over 32 / 40 / 64 groups (the first share grows, so every prefix share grows): positions stay contiguous slices
    whatever the number of groups"""
    units = [M.enc(u) for u in ["u%d" % i for i in range(60)] + ["", 0, None]]
    for n, salt in ((32, None), (40, "wide"), (64, "")):
        yield {"family": [[str(a)] + ["1"] * (n - 1) for a in (1, 3, 10, 40)], "units": units, "salt": salt, "kind": "fixed-wide-%d" % n}
        yield {"family": [[str(1 + (i * 7) % 5 + (a if i < n // 2 else 0)) for i in range(n)] for a in (0, 2, 9)], "units": units, "salt": salt, "kind": "fixed-wide-uneven-%d" % n}


SPELL = {"plain": lambda w: str(w), "x7": lambda w: str(7 * w), "padded": lambda w: "%04d" % w, "nano": lambda w: "0.%09d" % w,
         "tenths": lambda w: "%d.%d" % (w // 10, w % 10), "micro": lambda w: "0.%06d" % w, "x1e6": lambda w: str(w * 10 ** 6), "float": lambda w: "%d.0" % w,
         "x1e20": lambda w: str(w * 10 ** 20), "x1e299": lambda w: str(w * 10 ** 299), "x1e16.0": lambda w: str(w * 10 ** 16) + ".0", "1e-10": lambda w: "0.%010d" % w, "1e-15": lambda w: "0.%015d" % w,
         # literals of 35 to 90 characters: many leading / trailing zeros around the digits that matter
         "1e-31": lambda w: "0." + "0" * 27 + "%04d" % w, "1e-60": lambda w: "0." + "0" * 56 + "%04d" % w, "x1e32.0": lambda w: str(w * 10 ** 32) + ".0",
         "long-tail": lambda w: "%d.%s" % (w, "0" * 60), "long-head": lambda w: "0" * 45 + "%d.0" % w,
         "x1e40-int": lambda w: str(w * 10 ** 40), "nano-long-tail": lambda w: "0.%09d" % w + "0" * 50}


def spelling_cases():
    for ci, ws in enumerate([[1, 2], [2, 1], [1, 9], [4, 5, 5, 4], [1, 1, 2], [3, 0, 1], [1, 2, 3, 4, 5, 6, 7, 8], [9, 1], [5, 4], [1, 1], [7, 3, 0, 5],
                                # magnitudes that differ within one vector (10 next to 5, 100 next to 3: other exponents once scaled)
                                [10, 5], [20, 10, 5], [1, 10], [100, 3, 10], [50, 1000, 7]]):
        yield {"spellings": True, "ws": ws, "salt": [None, "s1", ""][ci % 3], "n_units": 120}


def judge_spellings(case):
    """the same shares in every spelling (plain, multiplied, zero-padded, in units of 1e-9 / 1e-6 / 0.1, as x.0) put every unit
    into the same group: a position does not depend on the magnitude or the notation of the weights"""
    ws = case["ws"]
    units = ["u%d" % i for i in range(case["n_units"])] + ["", 0, None]
    rows = {}
    for name, f in SPELL.items():
        if name == "x1e299" and sum(ws) > 5000:
            continue  # (the total would leave the range of a double)
        text = M.render(M.program("sp", M.ret([(M.lit_str("g%d" % gi), f(w)) for gi, w in enumerate(ws)]), salt=case["salt"], splitters=["uid"]))
        res = sut.compile_text(text)
        if res[0] != "ok":
            return {"viol": ["does not compile: %s %s | %s" % (res[1], res[2], text)], "tags": ["spellings"], "key": case}
        rows[name] = [sut.call(res[1], {"uid": u}) for u in units]
    viol = []
    for name, row in rows.items():
        for u, a, b in zip(units, rows["plain"], row):
            if a != b:
                viol.append("unit %r: weights %r select %r, the same shares written %r select %r" % (u, [SPELL["plain"](w) for w in ws], a[1:], [SPELL[name](w) for w in ws], b[1:]))
                break
    return {"viol": viol[:3], "nontrivial": len(set(map(str, rows["plain"]))) > 1, "tags": ["spellings"], "key": [ws, case["salt"]],
            "sample": {"shares": ws, "spellings": sorted(SPELL)}}


def restart_cases():
    """a ramp rolled out by restarts: every weight vector of the chain is served by ANOTHER interpreter process (its own hash
    seed), several splitter fields with mixed-case names"""
    for names, fam, salt in ((["user_id", "Tenant", "region"], [["10", "90"], ["20", "80"], ["35", "65"], ["50", "50"]], "ramp"),
                             (["b", "a", "B", "A"], [["1", "1", "8"], ["2", "1", "7"], ["2", "3", "5"]], None)):
        units = [{n: "%s-%d" % (n[:1], (i * 7 + j) % 50) for j, n in enumerate(names)} for i in range(150)]
        yield {"restart": True, "names": names, "family": fam, "salt": salt, "units": [M.enc_inputs(u) for u in units], "seeds": ["1", "2", "77", "4242", "random"]}


def judge_restart(case):
    import json
    import os
    import subprocess
    import sys
    import tempfile

    verif = os.path.dirname(os.path.dirname(os.path.dirname(os.path.abspath(__file__))))
    fam = case["family"]
    texts = [M.render(M.program("ramp", M.ret([(M.lit_str("g%d" % gi), w) for gi, w in enumerate(ws)]), salt=case["salt"], splitters=case["names"]))
             for ws in fam]
    tmp = tempfile.mkdtemp(prefix="pyab_c10_")
    procs = []
    try:
        for vi, text in enumerate(texts):
            path = os.path.join(tmp, "batch%d.json" % vi)
            with open(path, "w", encoding="ascii") as f:
                json.dump([{"text": text, "inputs": u} for u in case["units"]], f, ensure_ascii=True)
            env = {k: v for k, v in os.environ.items() if not k.startswith("PYTHON")}
            env.update({"PYTHONHASHSEED": case["seeds"][vi % len(case["seeds"])], "PYTHONDONTWRITEBYTECODE": "1",
                        "PYAB_SRC": os.environ.get("PYAB_SRC", "/repo/src")})
            env["PYTHONPATH"] = os.pathsep.join([env["PYAB_SRC"], verif])
            procs.append(subprocess.Popen([sys.executable, "-B", os.path.join(verif, "pyabverif", "child_eval.py"), path], env=env,
                                          stdout=subprocess.PIPE, stderr=subprocess.PIPE))
        idx = []
        for vi, p in enumerate(procs):
            so, se = p.communicate()
            if p.returncode != 0:
                raise runner.HarnessError("child interpreter failed: %s" % se.decode("ascii", "replace")[-600:])
            res = json.loads(so.decode("ascii"))["results"]
            row = []
            for r in res:
                if r[0] != "group" or not str(r[1].get("v", "")).startswith("g"):
                    return {"viol": ["ramp served by another process: unexpected outcome %r for weights %r" % (r, fam[vi])], "tags": ["restart"], "key": case}
                row.append(int(r[1]["v"][1:]))
            idx.append(row)
    finally:
        import shutil

        shutil.rmtree(tmp, ignore_errors=True)
    viol = []
    moved = 0
    for ui in range(len(case["units"])):
        lo, hi = Fraction(0), Fraction(1)
        for vi, ws in enumerate(fam):
            pre = _prefix(ws)
            g = idx[vi][ui]
            if vi and g > idx[vi - 1][ui]:
                viol.append("unit %r moved to a later group (%d -> %d) when %r -> %r was rolled out by a restart (another interpreter process), "
                            "although no prefix share decreased" % (M.dec_inputs(case["units"][ui]), idx[vi - 1][ui], g, fam[vi - 1], ws))
                break
            if vi and g != idx[vi - 1][ui]:
                moved += 1
            lo, hi = max(lo, pre[g]), min(hi, pre[g + 1])
        else:
            if lo >= hi + Fraction(1, 10 ** 9):
                viol.append("unit %r: no single position is consistent with its groups %r under %r served by different processes"
                            % (M.dec_inputs(case["units"][ui]), [idx[vi][ui] for vi in range(len(fam))], fam))
        if len(viol) >= 3:
            break
    return {"viol": viol[:3], "nontrivial": moved > 0, "tags": ["restart", "splitters:%d" % len(case["names"])], "key": [case["names"], fam, case["salt"]],
            "sample": {"restart_family": fam, "splitters": case["names"], "hash_seeds": case["seeds"][:len(fam)]}}


def targeting_cases():
    """a ramp whose revisions alternately stand alone and sit inside a targeting condition (a condition field is added, dropped,
    added again), several splitters declared out of alphabetical order"""
    for names, fam, salt in ((["user_id", "Tenant", "region"], [["10", "90"], ["20", "80"], ["35", "65"], ["50", "50"], ["80", "20"]], "ramp"),
                             (["uid", "country"], [["1", "9"], ["2", "8"], ["5", "5"]], None), (["b", "a", "B", "A"], [["1", "1", "8"], ["2", "1", "7"], ["2", "3", "5"], ["4", "3", "3"]], "")):
        for first_plain in (True, False):
            units = [dict({n: "%s-%d" % (n[:1], (i * 7 + j) % 50) for j, n in enumerate(names)}, plan="pro") for i in range(200)]
            yield {"targeting": True, "names": names, "family": fam, "salt": salt, "units": [M.enc_inputs(u) for u in units], "first_plain": first_plain}


def judge_targeting(case):
    fam, names = case["family"], case["names"]
    texts = []
    for vi, ws in enumerate(fam):
        body = M.ret([(M.lit_str("g%d" % gi), w) for gi, w in enumerate(ws)])
        if (vi % 2 == 0) != case["first_plain"]:
            body = M.if_([(M.cmp_(M.ident("plan"), "==", M.lit_str("pro")), body)], M.ret([(M.lit_str("off"), "1")]))
        texts.append(M.render(M.program("ramp", body, salt=case["salt"], splitters=names)))
    units = [M.dec_inputs(u) for u in case["units"]]
    viol = []
    live = None
    idx = []
    for vi, text in enumerate(texts):
        fresh = sut.compile_text(text)
        if fresh[0] != "ok":
            return {"viol": ["does not compile: %s %s | %s" % (fresh[1], fresh[2], text)], "tags": ["targeting"], "key": case}
        try:
            if live is None:
                live = sut.evaluator_mod().ExperimentEvaluator(text)
            else:
                live.recompile(text)
        except Exception as e:
            return {"viol": ["live evaluator: recompile to revision %d raised %s: %s | %s" % (vi, type(e).__name__, e, text)], "tags": ["targeting"], "key": case}
        row = []
        for u in units:
            a, b = sut.call(fresh[1], u), sut.call(live, u)
            if a[0] != "group" or not str(a[1]).startswith("g"):
                return {"viol": ["unexpected outcome %r for %r | %s" % (a, u, text)], "tags": ["targeting"], "key": case}
            if a != b:
                viol.append("revision %d (%s): a fresh evaluator gives %r, the long-lived evaluator recompile()d through the revisions gives %r | unit %r | %s"
                            % (vi, "inside a targeting condition" if " if " in text else "stand-alone", a[1:], b[1:], u, text))
                break
            row.append(int(a[1][1:]))
        if viol:
            break
        idx.append(row)
    moved = 0
    if not viol:
        for ui, u in enumerate(units):
            lo, hi = Fraction(0), Fraction(1)
            for vi, ws in enumerate(fam):
                pre = _prefix(ws)
                g = idx[vi][ui]
                if vi and g > idx[vi - 1][ui]:
                    viol.append("unit %r moved to a later group (%d -> %d) when weights %r -> %r were deployed together with a targeting condition being "
                                "%s, although no prefix share decreased | %s" % (u, idx[vi - 1][ui], g, fam[vi - 1], ws, "added" if " if " in texts[vi] else "dropped", texts[vi]))
                    break
                if vi and g != idx[vi - 1][ui]:
                    moved += 1
                lo, hi = max(lo, pre[g]), min(hi, pre[g + 1])
            else:
                if lo >= hi + Fraction(1, 10 ** 9):
                    viol.append("unit %r: no single position is consistent with its groups %r under %r (revisions alternately inside / outside a condition)"
                                % (u, [idx[vi][ui] for vi in range(len(fam))], fam))
            if len(viol) >= 3:
                break
    return {"viol": viol[:3], "nontrivial": moved > 0, "tags": ["targeting", "splitters:%d" % len(names)], "key": [names, fam, case["salt"], case["first_plain"]],
            "sample": {"targeting_family": fam, "splitters": names, "first_revision_stands_alone": case["first_plain"]}}


def judge_case(record):
    c = record["case"]
    if c.get("targeting"):
        return judge_targeting(c)["viol"]
    if c.get("restart"):
        return judge_restart(c)["viol"]
    if c.get("spellings"):
        return judge_spellings(c)["viol"]
    return (judge_fine(c) if "steps" in c else judge(c))["viol"]


def run(ctx, rec):
    if ctx.shard == 0:
        runner.direct_run(ctx, rec, "ramp-rolled-out-by-restarts", restart_cases(), judge_restart)
        if rec.violations:
            return
        runner.direct_run(ctx, rec, "revisions-that-add-or-drop-a-targeting-condition", targeting_cases(), judge_targeting)
        if rec.violations:
            return
        runner.direct_run(ctx, rec, "fixed-families-in-every-spelling", fixed_families(), judge)
        if rec.violations:
            return
        runner.direct_run(ctx, rec, "ramps-over-many-groups", wide_families(), judge)
        if rec.violations:
            return
        runner.direct_run(ctx, rec, "same-shares-other-spelling", spelling_cases(), judge_spellings)
        if rec.violations:
            return
    runner.hyp_run(ctx, rec, "families", families(), judge, ctx.n(400, 1500))
    if rec.violations:
        return
    runner.hyp_run(ctx, rec, "fine-ramps-around-located-position", fine_cases(), judge_fine, ctx.n(8, 40), shrink=False)
