"""C16 - the public choice function honours its random.choices-style contract."""
import copy
import functools
import itertools
import math
import random

from hypothesis import strategies as st

from .. import refbucket, runner, stats, sut

ID = "C16"
RULE = ("deterministic_choice(id, population, weights / cum_weights) with ids = text (incl. the empty string and ids whose hash position is 0 or 2^32-1) or None, populations = lists/tuples "
        "of identity-tagged mixed values (length 1-64), weight vectors of non-negative ints/floats with zeros (never all "
        "zero), their accumulated form, and the malformed combinations (both kinds, wrong length +-1, zero / negative / "
        "nan / inf total). Oracles: result `is` an element; deep copies of the arguments unchanged; weights == "
        "cum_weights=accumulate(weights); no weights == equal integer weights c (c*n < 2^20); TypeError for both kinds, "
        "ValueError for the other malformed ones; id=None under seeded random: never a zero-weight item in 2000 draws and "
        "chi-square (1e-9) against the weights. Non-trivial = n>=2 with >=2 positive weights, or a malformed combination; "
        "distinct by arguments.")
RULE += (' Since rounds 6-7: unhashable population elements, weights as tuples, exact-boundary hash positions for weights vs cum_weights with float rounding error, the global random generator untouched by calls with an id.')
RULE += (' Since rounds 14-15: malformed calls in every calling convention (weights positional, all by name, functools.partial, without an id); hand-written weight shapes.')
ASSUMPTIONS = [
    "positive weights lie in [1e-9, 1e9] (the magnitudes the language can express, cf. C03), optionally scaled as a whole vector by 1e-280 .. 1e280, or are exactly 0: with subnormal "
    "totals such as 5e-324 the product u*total rounds onto the total itself - a limit of double arithmetic that "
    "random.choices shares - so such vectors are outside the explored domain (found by a thorough run, generator corrected)",
    "the documented errors are those of the function's docstring and random.choices: TypeError when both weights and "
    "cum_weights are given, ValueError for wrong length, non-positive total and non-finite total",
    "with an id, a zero-weight item is never returned; with id=None zero-weight items are never drawn (random.choices)",
]
SHARDS = {"quick": 1, "thorough": 16}


# ids whose hash position is 0 (first two) and 2^32-1 (last): verifiable in a microsecond, found once by brute force
EXTREME_IDS = ["unit-3373044025", "unit-5155129577", "unit-7940567911"]


class Tag:
    """identity-tagged element"""

    def __init__(self, i, v):
        self.i = i
        self.v = v

    def __repr__(self):
        return "Tag(%d,%r)" % (self.i, self.v)

    def __eq__(self, o):  # all tags equal: only identity distinguishes them
        return isinstance(o, Tag)

    def __hash__(self):
        return 0

    def __deepcopy__(self, memo):
        return Tag(self.i, copy.deepcopy(self.v, memo))


class PairTag(tuple):
    """a 2-tuple (value, number) as a population element; .i / .v give the index / value of the wrapped tag"""

    i = property(lambda self: self[0].i)
    v = property(lambda self: self[0].v)


class UTag(Tag):
    """an element that cannot be hashed (a list, a dict, a dataclass with eq=True ...): still a perfectly good population item"""

    __hash__ = None

    def __deepcopy__(self, memo):
        return UTag(self.i, copy.deepcopy(self.v, memo))


_vals = st.one_of(st.integers(-5, 5), st.text(max_size=3), st.none(), st.floats(allow_nan=False, width=16), st.booleans())
_w = st.one_of(st.integers(0, 1000), st.sampled_from([0, 0, 0.0, 0.5, 1.5, 2.25, 1e-9, 1e9, 3, 0.1, 0.7]),
               st.floats(min_value=1e-9, max_value=1e9, allow_nan=False))


@st.composite
def good(draw):
    n = draw(st.one_of(st.integers(1, 6), st.integers(1, 64)))
    ws = [draw(_w) for _ in range(n)]
    if sum(ws) <= 0:
        ws[draw(st.integers(0, n - 1))] = draw(st.sampled_from([1, 0.5, 7]))
    return {"kind": "good", "id": draw(st.one_of(st.text(alphabet=st.characters(exclude_categories=["Cs"]), max_size=20), st.none(),
                                             st.sampled_from(EXTREME_IDS + ["", "0", " "]))),
            "pop": [draw(_vals) for _ in range(n)], "tuple": draw(st.booleans()), "ws": ws,
            "unhashable": draw(st.integers(0, 3)) == 0, "wtuple": draw(st.integers(0, 2)) == 0, "pairs": draw(st.integers(0, 4)) == 0,
            # the whole vector scaled by a power of ten (1e-280 .. 1e280): only the shares matter
            "scale_exp": draw(st.sampled_from([0, 0, 0, -17, -100, -280, 20, 100, 280, -30, 15])),
            "c": draw(st.integers(1, max(1, (2 ** 20 - 1) // n))), "seed": draw(st.integers(0, 2 ** 32))}


@st.composite
def bad(draw):
    n = draw(st.integers(1, 8))
    ws = [draw(st.integers(0, 9)) for _ in range(n)]
    if sum(ws) == 0:
        ws[0] = 1
    kind = draw(st.sampled_from(["both", "long", "short", "zero", "negative", "nan", "inf", "long-cum", "short-cum", "zero-cum",
                                 "neg-cum", "inf-cum", "overflow", "overflow", "nan-cum", "empty", "empty-cum", "neg-inside", "neg-inside-cum"]))
    return {"kind": kind, "id": draw(st.text(max_size=8)), "pop": [draw(_vals) for _ in range(n)], "tuple": draw(st.booleans()),
            "ws": ws, "unhashable": draw(st.integers(0, 3)) == 0, "wtuple": draw(st.integers(0, 2)) == 0}


def _pop(case):
    items = [(UTag if case.get("unhashable") else Tag)(i, v) for i, v in enumerate(case["pop"])]
    if case.get("pairs"):
        # elements that are themselves (value, number) pairs - tuples like any others, never to be taken for "item, weight"
        items = [PairTag((it, [2, 0.5, 0, 7][i % 4])) for i, it in enumerate(items)]
    return tuple(items) if case["tuple"] else items


def _is_elem(x, pop):
    return any(x is e for e in pop)


def _unchanged(pop, snap_ids, snap_vals):
    return [id(e) for e in pop] == snap_ids and [e.v for e in pop] == snap_vals


def judge(case):
    dc = sut.binning().deterministic_choice
    viol = []
    tags = ["kind:" + case["kind"]]
    pop = _pop(case)
    ids0 = [id(e) for e in pop]
    vals0 = copy.deepcopy([e.v for e in pop])
    ws = list(case["ws"])
    n = len(pop)
    if case["kind"] == "good" and case.get("scale_exp"):
        ws = [float(w) * 10.0 ** case["scale_exp"] for w in ws]
        tags.append("scaled-by-1e%d" % case["scale_exp"])
    if case["kind"] == "good":
        uid = case["id"]
        cum = list(itertools.accumulate(ws))
        ws_arg, cum_arg = list(ws), list(cum)
        if case.get("wtuple"):
            # any sequence will do for the weights, as for random.choices: here tuples
            ws_arg, cum_arg, ws, cum = tuple(ws), tuple(cum), tuple(ws), tuple(cum)
            tags.append("weights-as-tuple")
        if case.get("unhashable"):
            tags.append("unhashable-elements")
        positive = sum(1 for w in ws if w > 0)
        tags.append("id:none" if uid is None else "id:text")
        if any(w == 0 for w in ws):
            tags.append("has-zero-weight")
        try:
            if uid is not None:
                rng0 = random.getstate()
                a = dc(uid, pop, ws_arg)
                if random.getstate() != rng0:
                    viol.append("a call WITH an id touched the global random generator (later id-less draws would no longer be random)")
                b = dc(uid, pop, cum_weights=cum_arg)
                a2 = dc(uid, pop, weights=ws_arg)
                if not _is_elem(a, pop):
                    viol.append("result %r is not an element of the population" % (a,))
                # every argument may be passed by name (also through functools.partial, as generated code passes population / weights)

                a3 = dc(input_id=uid, population=pop, weights=ws_arg)
                a4 = functools.partial(dc, input_id=uid, population=pop)(cum_weights=cum_arg)
                a5 = functools.partial(dc, population=pop, weights=ws_arg)(uid)
                if a3 is not a or a4 is not a or a5 is not a:
                    viol.append("the same call with arguments passed by name selects another element (#%s / #%s / #%s instead of #%s)"
                                % (getattr(a3, "i", a3), getattr(a4, "i", a4), getattr(a5, "i", a5), getattr(a, "i", a)))
                if a is not b or a is not a2:
                    viol.append("weights=%r gave element #%s, cum_weights=%r gave #%s" % (ws, getattr(a, "i", a), cum, getattr(b, "i", b)))
                if _is_elem(a, pop) and ws[a.i] == 0:
                    viol.append("zero-weight item #%d selected for id %r weights %r" % (a.i, uid, ws))
                c = case["c"]
                u = dc(uid, pop)
                e = dc(uid, pop, (c,) * n if case.get("wtuple") else [c] * n)
                if not _is_elem(u, pop) or u is not e:
                    viol.append("no weights gave #%s, equal integer weights %d gave #%s (n=%d, id=%r)"
                                % (getattr(u, "i", u), c, getattr(e, "i", e), n, uid))
                # a caller may keep ONE weights list and edit it in place between calls: the answer must follow the edit
                if n >= 2:
                    buf = list(ws)
                    dc(uid, pop, buf)
                    other = list(ws[1:] + ws[:1])
                    if sum(other) > 0:
                        buf[:] = other
                        r_inplace = dc(uid, pop, buf)
                        r_fresh = dc(uid, pop, list(other))
                        if r_inplace is not r_fresh:
                            viol.append("a weights list edited in place between two calls (%r -> %r) gave #%s, a fresh list gives #%s"
                                        % (ws, other, getattr(r_inplace, "i", r_inplace), getattr(r_fresh, "i", r_fresh)))
                # agreement with the documented uniform rule floor(u*n)
                k = refbucket.string_position(uid)
                if _is_elem(u, pop) and u.i != (k * n) // refbucket.GRID:
                    tags.append("note:unweighted-differs-from-floor(u*n)")
            else:
                if isinstance(cum[-1], float) and cum[-1] == int(cum[-1]) and cum[-1] < 2 ** 53:
                    # hand-written running totals: fractional shares that end in a whole number written as an int (0.25, 0.5, 1)
                    cum_arg = type(cum_arg)(list(cum_arg[:-1]) + [int(cum[-1])])
                    cum = type(cum)(list(cum[:-1]) + [int(cum[-1])])
                    tags.append("cum-weights-end-in-an-int")
                random.seed(case["seed"])
                a = dc(None, pop, ws_arg)
                random.seed(case["seed"])
                b = dc(None, pop, cum_weights=cum_arg)
                if not _is_elem(a, pop) or a is not b:
                    viol.append("id=None: weights and cum_weights disagree under the same random seed (#%s vs #%s)"
                                % (getattr(a, "i", a), getattr(b, "i", b)))
                if n <= 8:
                    random.seed(case["seed"])
                    counts = [0] * n
                    draws = 2000
                    for _ in range(draws):
                        x = dc(None, pop, ws_arg)
                        if not _is_elem(x, pop):
                            viol.append("id=None: result not an element")
                            break
                        counts[x.i] += 1
                    for i, w in enumerate(ws):
                        if w == 0 and counts[i]:
                            viol.append("id=None: zero-weight item #%d drawn %d times (weights %r)" % (i, counts[i], ws))
                    tot = float(sum(ws))
                    exp = [draws * w / tot for w in ws]
                    if all(e == 0 or e >= 5 for e in exp) and positive >= 2:
                        stat, df, p = stats.chi2_gof(counts, exp)
                        tags.append("random-branch-chi2")
                        if p < 1e-9:
                            viol.append("id=None: draws %r inconsistent with weights %r (chi2=%.1f df=%d p=%.3g)" % (counts, ws, stat, df, p))
        except Exception as e:
            viol.append("well-formed call raised %s: %s (id=%r n=%d weights=%r)" % (type(e).__name__, e, uid, n, ws))
        if ws_arg != ws or cum_arg != cum:
            viol.append("weights / cum_weights argument was modified")
        nontrivial = n >= 2 and positive >= 2
    else:
        kind = case["kind"]
        kw = {}
        want = ValueError
        cum = list(itertools.accumulate(ws))
        if kind == "both":
            kw = {"weights": ws, "cum_weights": cum}
            want = TypeError
        elif kind == "long":
            kw = {"weights": ws + [1]}
        elif kind == "short":
            kw = {"weights": ws[:-1]} if n > 1 else {"weights": ws + [1, 1]}
        elif kind == "zero":
            kw = {"weights": [0] * n}
        elif kind == "negative":
            kw = {"weights": [-w - 1 for w in ws]}
        elif kind == "neg-inside":
            # a negative entry after a positive one that brings the total to zero or below: a non-positive total all the same
            kw = {"weights": [2, -2] + [0] * (n - 2)} if n >= 2 else {"weights": [-1]}
        elif kind == "neg-inside-cum":
            kw = {"cum_weights": [2] + [0] * (n - 1)} if n >= 2 else {"cum_weights": [-1]}
        elif kind == "nan":
            kw = {"weights": ws[:-1] + [float("nan")]}
        elif kind == "inf":
            kw = {"weights": ws[:-1] + [float("inf")]}
        elif kind == "empty":
            kw = {"weights": []}
        elif kind == "empty-cum":
            kw = {"cum_weights": []}
        elif kind == "overflow":
            # every weight is finite, their total is not (it overflows to inf): a non-finite total all the same
            kw = {"weights": [1e308, 1e308] + [float(w) for w in ws[2:]]} if n >= 2 else {"weights": [float("inf")]}
        elif kind == "nan-cum":
            kw = {"cum_weights": cum[:-1] + [float("nan")]}
        elif kind == "long-cum":
            kw = {"cum_weights": cum + [cum[-1] + 1]}
        elif kind == "short-cum":
            kw = {"cum_weights": cum[:-1]} if n > 1 else {"cum_weights": cum + [cum[-1] + 1]}
        elif kind == "zero-cum":
            kw = {"cum_weights": [0] * n}
        elif kind == "neg-cum":
            kw = {"cum_weights": [-1.0] * n}
        elif kind == "inf-cum":
            kw = {"cum_weights": cum[:-1] + [float("inf")]}
        if case.get("wtuple"):
            kw = {k: tuple(v) for k, v in kw.items()}
            tags.append("weights-as-tuple")
        kw0 = copy.deepcopy(kw)
        if kind in ("long", "short", "long-cum", "short-cum"):
            # warm-up: the very same weights are valid for a population of matching length; a validation result remembered
            # from that call must not leak into the malformed one
            m = len(next(iter(kw.values())))
            try:
                dc(case["id"], [Tag(i, None) for i in range(m)], **copy.deepcopy(kw))
            except Exception:
                pass  # the truncated / extended vector may itself be invalid (e.g. zero total): only a warm-up
        # the same malformed call in every calling convention the signature allows (weights is the third positional parameter,
        # as in random.choices; everything may be passed by name)
        forms = [("", lambda: dc(case["id"], pop, **kw)), (" [all arguments by name]", lambda: dc(input_id=case["id"], population=pop, **kw))]
        if "weights" in kw:
            rest = {k: v for k, v in kw.items() if k != "weights"}
            forms.append((" [weights passed positionally]", lambda: dc(case["id"], pop, kw["weights"], **rest)))
            forms.append((" [weights positionally, through functools.partial]", lambda: functools.partial(dc, case["id"], pop, kw["weights"])(**rest)))
        if kind not in ("negative", "neg-cum", "neg-inside", "neg-inside-cum"):
            # the id-less (random) branch documents the same refusals (those of random.choices); a negative weight inside a
            # positive total is the one thing random.choices does not look at
            forms.append((" [without an id]", lambda: dc(None, pop, **kw)))
            if "weights" in kw:
                forms.append((" [without an id, weights passed positionally]", lambda: dc(None, pop, kw["weights"], **{k: v for k, v in kw.items() if k != "weights"})))
        for how, fn in forms:
            try:
                r = fn()
                if kind in ("nan", "nan-cum"):
                    # a NaN total is "not finite": the documented ValueError; random.choices raises ValueError too
                    viol.append("NaN total accepted%s, returned %r" % (how, r))
                else:
                    viol.append("malformed call (%s)%s returned %r instead of raising %s" % (kind, how, r, want.__name__))
            except want:
                pass
            except Exception as e:
                viol.append("malformed call (%s)%s raised %s instead of %s: %s" % (kind, how, type(e).__name__, want.__name__, e))
        if repr(kw) != repr(kw0):
            viol.append("arguments modified by a failing call")
        nontrivial = True
    if not _unchanged(pop, ids0, vals0):
        viol.append("population was modified")
    return {"viol": viol, "nontrivial": nontrivial, "tags": tags, "key": case,
            "sample": {k: case[k] for k in ("kind", "id", "ws") if k in case}}


def dyadic_cases():
    """float weights whose running sums carry rounding error, asked at hash positions that sit EXACTLY on a share boundary
    (k/2^m, substituted from outside; plus one real id found once by brute force): the weights form and the
    cum_weights=list(accumulate(weights)) form must still pick the same element"""
    for w, n in ((0.1, 64), (0.2, 64), (0.05, 64), (0.3, 16), (0.7, 32), (1 / 3, 8), (0.1, 10), (1e-9, 64), (0.6, 5), (2.5, 64), (1, 64)):
        yield {"kind": "dyadic", "w": w, "n": n, "ms": [6, 5, 4, 3, 1]}
    yield {"kind": "dyadic", "ws": [0.1, 0.2, 0.3, 0.4, 0.1, 0.2, 0.3, 0.4], "ms": [4, 3, 2]}
    yield {"kind": "dyadic", "ws": [0.1] * 7 + [0.3], "ms": [3, 2, 1]}
    # no weights versus equal integer weights, population sizes 1..64, at positions k/16 (for n = 10, 20 ... the slice border
    # k/n is not a binary fraction, so any arithmetic on a rounded slice width puts such a unit into the wrong slice)
    for n0 in range(1, 65, 8):
        yield {"kind": "dyadic", "unweighted": list(range(n0, n0 + 8)), "ms": [4, 3, 2, 1]}


def judge_dyadic(case):
    from . import c03

    dc = sut.binning().deterministic_choice
    if "unweighted" in case:
        viol = []
        consulted = 0
        for n in case["unweighted"]:
            pop = [Tag(i, None) for i in range(n)]
            for g in sorted({(k << 32) >> m for m in case["ms"] for k in range(1 << m)}):
                with c03._Subst(g) as sub:
                    a = dc("unit", pop)
                    b = dc("unit", pop, [3] * n)
                    c = dc("unit", pop, cum_weights=[3 * (i + 1) for i in range(n)])
                    consulted += sub.calls
                if a is not b or a is not c:
                    viol.append("hash position %d/2^32 (= %g exactly), %d items: no weights selects #%s, equal integer weights #%s, their "
                                "running totals #%s" % (g, g / 2 ** 32, n, getattr(a, "i", a), getattr(b, "i", b), getattr(c, "i", c)))
                    break
        return {"viol": viol[:3], "nontrivial": True, "tags": ["dyadic-positions", "unweighted"] + ([] if consulted else ["substitution-not-consulted"]),
                "key": case, "sample": {"dyadic_unweighted_sizes": case["unweighted"]}}
    ws = list(case["ws"]) if "ws" in case else [case["w"]] * case["n"]
    n = len(ws)
    cum = list(itertools.accumulate(ws))
    pop = [Tag(i, None) for i in range(n)]
    viol = []
    positions = sorted({(k << 32) >> m for m in case["ms"] for k in range(1 << m)})
    consulted = 0
    for g in positions:
        with c03._Subst(g) as sub:
            a = dc("unit", pop, list(ws))
            b = dc("unit", pop, cum_weights=list(cum))
            consulted += sub.calls
        if a is not b:
            viol.append("hash position %d/2^32 (= %g exactly): weights=%r... selects #%s, cum_weights=list(accumulate(weights)) selects #%s"
                        % (g, g / 2 ** 32, ws[:3], getattr(a, "i", a), getattr(b, "i", b)))
            break
    tags = ["dyadic-positions"]
    if not consulted:
        tags.append("substitution-not-consulted")  # the function no longer asks deterministic_proba: only the real id below counts
    if len(set(ws)) == 1 and n == 64 and ws[0] in (0.1, 0.2, 0.05):
        # a real id whose MD5 starts with 90000000: position 36/64 exactly
        uid = "user-15393501"
        assert refbucket.string_position(uid) == 0x90000000
        a = dc(uid, pop, list(ws))
        b = dc(uid, pop, cum_weights=list(cum))
        if a is not b:
            viol.append("id %r (hash position 36/64 exactly): weights=[%r]*64 selects #%s, cum_weights=list(accumulate(weights)) selects #%s"
                        % (uid, ws[0], getattr(a, "i", a), getattr(b, "i", b)))
    return {"viol": viol, "nontrivial": True, "tags": tags, "key": case, "sample": {"dyadic": {k: v for k, v in case.items() if k != "kind"}}}


def judge_case(record):
    if record["case"].get("neg"):
        return judge_negative_inside(record["case"])["viol"]
    if record["case"].get("kind") == "dyadic":
        return judge_dyadic(record["case"])["viol"]
    part = record.get("part", "")
    if part.startswith("python-"):  # found under an optimised interpreter: replay there
        return runner.child_judge("C16", [record["case"]], py_flags=(part[len("python"):],))["results"][0]
    return judge(record["case"])["viol"]


def selftest():
    stats.selftest()


def optimised_cases():
    out = []
    for kind in ["both", "long", "short", "zero", "negative", "nan", "inf", "long-cum", "short-cum", "zero-cum", "neg-cum", "inf-cum", "overflow", "nan-cum", "empty", "empty-cum", "neg-inside", "neg-inside-cum"]:
        for pop, ws in (([1, "a", None], [1, 2, 3]), ([0], [5]), (["x", "y"], [0, 4])):
            out.append({"kind": kind, "id": "u-%s" % kind, "pop": pop, "tuple": False, "ws": ws})
    out.append({"kind": "good", "id": "unit-1", "pop": [1, 2, 3], "tuple": True, "ws": [1, 0, 2.5], "c": 3, "seed": 1})
    return out


def judge_negative_inside(case):
    """weights with a negative entry but a positive total are not refused (random.choices does not look either); whatever they
    select, the weights form and its accumulated form are one and the same call"""
    dc = sut.binning().deterministic_choice
    ws = case["ws"]
    cum = list(itertools.accumulate(ws))
    pop = list(range(len(ws)))
    viol = []
    for j in range(300):
        uid = "neg-%d" % j
        try:
            a, b = dc(uid, pop, ws), dc(uid, pop, cum_weights=cum)
        except Exception as e:
            viol.append("weights %r (positive total) raised %s: %s" % (ws, type(e).__name__, e))
            break
        if a != b:
            viol.append("id %r: weights=%r selects #%r, cum_weights=%r (their running totals) selects #%r" % (uid, ws, a, cum, b))
            break
    return {"viol": viol, "nontrivial": True, "tags": ["negative-entry-positive-total"], "key": ["neg", ws], "sample": {"weights": ws}}


def fixed_good():
    """id-less (random) and id calls on hand-written weight shapes: fractional shares with a whole-number total (the running
    totals then end in an int), zeros in every position, one item, many equal items"""
    shapes = [[0.25, 0.25, 0, 0.5], [0.5, 1, 0, 0.5], [0.5, 0.5], [0.25, 0.75], [1.5, 0.5, 2], [1, 2, 3], [0, 0, 4], [4, 0, 0], [0.5, 0, 0.5, 0, 1, 0], [3],
              [0.125] * 8, [0.1] * 10, [1, 1e-9], [1e9, 1], [2.5, 2.5, 5, 10, 20, 40, 20]]
    for si, ws in enumerate(shapes):
        for uid, seed in ((None, 1), (None, 20240 + si), ("unit-%d" % si, 0), ("", 0)):
            yield {"kind": "good", "id": uid, "pop": list(range(len(ws))), "tuple": si % 2 == 0, "ws": ws, "unhashable": si % 3 == 0, "wtuple": si % 4 == 1,
                   "pairs": False, "scale_exp": 0, "c": 3, "seed": seed}


def run(ctx, rec):
    if ctx.shard == 0:
        runner.direct_run(ctx, rec, "hand-written-shapes", fixed_good(), judge)
        if rec.violations:
            return
        runner.direct_run(ctx, rec, "negative-entry-inside-a-positive-total", [{"neg": True, "ws": ws} for ws in ([4, -1, 2, 1], [3, -2.5, 1, 0.5], [1, 1, -1, 1], [5, -1], [0.5, -0.25, 0.25, 8])], judge_negative_inside)
        if rec.violations:
            return
    if ctx.shard == 0:
        # the contract does not depend on how the interpreter was started: python -O / -OO (assert and __debug__ blocks compiled out)
        cases = optimised_cases()
        for flags in (("-O",), ("-OO",)):
            res = runner.child_judge("C16", cases, py_flags=flags)
            rec.count("child-interpreter:" + "".join(flags), len(cases))
            rec.evaluations += len(cases)
            if res["flags"]["optimize"] < 1:
                raise runner.HarnessError("child did not run optimised")
            for c, msgs in zip(cases, res["results"]):
                if msgs:
                    rec.violation("python%s" % "".join(flags), c, ["under python %s: %s" % ("".join(flags), m) for m in msgs])
                    return
    if ctx.shard == 0:
        runner.direct_run(ctx, rec, "exact-boundary-positions", dyadic_cases(), judge_dyadic)
        if rec.violations:
            return
    runner.hyp_run(ctx, rec, "well-formed", good(), judge, ctx.n(1500, 6000))
    if rec.violations:
        return
    runner.hyp_run(ctx, rec, "malformed", bad(), judge, ctx.n(400, 2000))
