"""C01 - assignment is a pure, process-independent function of source and inputs."""
import json
import os
import subprocess
import sys
import tempfile

from hypothesis import strategies as st

from .. import common, gen, runner, sut
from .. import model as M

ID = "C01"
RULE = ("Programs with 1-4 splitter fields (optional salt incl. non-ASCII, 1-3 return statements) and field values "
        "str/int/float (nan, +-inf, -0.0)/bool/None, incl. clusters of values that are ==-equal but print differently (1/True/1.0, 0/False/-0.0, 2/2.0). (a) In-process histories: generated sequences of new(source), "
        "recompile(evaluator, other source), recompile(same source), call(evaluator, inputs) and unrelated odd texts being compiled in between (unterminated comment, junk), over several evaluator instances "
        "of 2-3 sources, incl. recompile cycles A->B->A and repeated calls in different orders. (b) Cross-process: a batch of "
        "(source, inputs) pairs is evaluated in child interpreters with PYTHONHASHSEED in {0,1,4242,random}, "
        "LANG/LC_ALL in {C, POSIX, C.UTF-8, tr_TR.UTF-8}, PYTHONUTF8 in {0,1}, different working directories. Oracle: a table "
        "result[(source, inputs)] filled on first observation; every later observation anywhere must be identical in value "
        "and type. Non-trivial = (source, inputs) pair whose return statement has >=2 positive-weight groups and that was "
        "observed in >=2 contexts; distinct by (source, inputs).")
RULE += (' Since rounds 6-7: a child whose cwd is full of decoy files named like the sources; refused recompiles followed by a roll-back; odd texts with literals at the 4300-digit limit; interpreter-wide settings compared after every step.')
RULE += (' Since rounds 14-15: bursts of 700-3000 identical calls between observations; positional calls of the compiled function in every child; children with every environment variable the library consults set (none on the pinned tree); texts differing only in lone surrogates (judged if the tree accepts them).')
ASSUMPTIONS = [
    "only CPython 3.12 and the C/POSIX/C.UTF-8 locales exist in this sandbox (tr_TR.UTF-8 falls back); other platforms are not reachable",
    "no reference hash scheme is used: C01 is about sameness, not about which group",
]
SHARDS = {"quick": 1, "thorough": 16}

SALTS = ["s1", "", "exp-v2", "é", "日本"]
VERIF = os.path.dirname(os.path.dirname(os.path.dirname(os.path.abspath(__file__))))


def _values():
    # incl. text that cannot be encoded (a lone surrogate, as lenient decoders produce) and ints beyond the int -> text limit:
    # whatever such a call does - on the pinned tree it raises - it must do every time, on every instance, in every process
    return st.one_of(gen.splitter_values(wild=True), gen.splitter_values(wild=True),
                     st.sampled_from(["user\udc80", "\ud800", "a\udfffb", 10 ** 5000]))


@st.composite
def _source(draw):
    sk = draw(gen.programs(min_splitters=1, max_splitters=4, max_depth=1, max_branches=2, max_groups=4,
                           salts=SALTS, pred_depth=1, max_fields=3))
    return sk


# values that compare (and hash) equal but print differently: a cache keyed on == / hash would confuse them
CLUSTERS = [[1, True, 1.0], [0, False, 0.0, -0.0], [2, 2.0], [10 ** 20, 1e20], [-1, -1.0], [7, 7.0]]


@st.composite
def _inputs(draw, prog, classes, iv, cluster=None):
    env = draw(gen.inputs_for(prog, classes, iv))
    if cluster is not None:
        for s in prog["splitters"]:
            if classes.get(s) == "any":
                env[s] = draw(st.sampled_from(cluster))
        return env
    for s in prog["splitters"]:
        if classes.get(s) == "any" or draw(st.integers(0, 2)) == 0 and classes.get(s) not in ("num", "str", "tup", "coll"):
            env[s] = draw(_values())
    return env


@st.composite
def histories(draw):
    srcs = [draw(_source()) for _ in range(draw(st.integers(2, 3)))]
    if draw(st.integers(0, 2)) == 0:
        # the second source is a NEIGHBOUR of the first (it differs only in blanks / case / a comment look-alike inside a string)
        from .. import neighbours

        nbs = neighbours.neighbours(srcs[0]["prog"])
        if nbs:
            _, a, b = nbs[draw(st.integers(0, len(nbs) - 1))]
            srcs[0] = dict(srcs[0], prog=a)
            srcs[1] = dict(srcs[0], prog=b)
    inputs = []
    for sk in srcs:
        iv = gen.interesting_values(sk["prog"], sk["classes"])
        cluster = draw(st.sampled_from(CLUSTERS)) if draw(st.integers(0, 2)) == 0 else None
        inputs.append([M.enc_inputs(draw(_inputs(sk["prog"], sk["classes"], iv, cluster))) for _ in range(draw(st.integers(2, 4)))])
    ops = []
    for _ in range(draw(st.integers(4, 40))):
        k = draw(st.sampled_from(["new", "recompile", "recompile_same", "call", "call", "call", "cycle", "noise", "cycle_nocall", "recompile_failing"]))
        ops.append([k, draw(st.integers(0, 5)), draw(st.integers(0, len(srcs) - 1)), draw(st.integers(0, 3))])
    case = {"sources": [s["prog"] for s in srcs], "inputs": inputs, "ops": ops}
    if draw(st.booleans()):
        # the sources as a user would write them: generated whitespace and comments between the tokens
        from .. import gen_text

        case["texts"] = [draw(gen_text.trivia_variant(M.program_tokens(s["prog"])))[0] for s in srcs]
    return case


NOISE = ['def n { return "a" weighted 1 } /* never closed', 'def n { /* open', "@@@", "", 'def n { return "a" weighted 1 } // */ def m { return "b" weighted 1 }',
         'def n { splitters: a, b, c return "a" weighted 1 ;', 'def lambda { splitters: class return "a" weighted 1 }', "/*",
         # literals at the edge of what the interpreter converts (4300 digits is CPython's int <-> text limit)
         "def n { splitters: u if u == " + "9" * 5000 + ' { return "a" weighted 1 } else { return "b" weighted 1 } }',
         "def n { splitters: u if u == " + "9" * 4300 + ' { return "a" weighted 1 } else { return "b" weighted 1 } }',
         'def n { splitters: u return "a" weighted ' + "1" * 400 + "." + "5" * 400 + ' , "b" weighted 1 }']


NOISE_INVALID = ['def n { return "a" weighted 1 ;', "@@@", "", 'def n { splitters: u return "a" weighted 1, }', "def n { /* open",
                 'def n { if a = 1 { return "a" weighted 1 } }']


def _canon(o):
    if o[0] == "group":
        return ["group", M.enc(o[1]) if isinstance(o[1], (str, int, float, bool, type(None))) else repr(o[1])]
    return list(o[:2])


def judge(case):
    E = sut.evaluator_mod().ExperimentEvaluator
    texts = case.get("texts") or [M.render(p) for p in case["sources"]]
    table = {}
    contexts = {}
    viol = []
    evs = []  # (evaluator, current source index)

    def observe(si, ii, ev, ctx):
        env = M.dec_inputs(case["inputs"][si][ii % len(case["inputs"][si])])
        key = (si, ii % len(case["inputs"][si]))
        got = _canon(sut.call(ev, env))
        if case.get("debug_toggle"):
            # the same call while the host has DEBUG logging switched on for everything: nobody listening changes no answer
            with common.ambient(debug_logging=True):
                got_dbg = _canon(sut.call(ev, env))
            if got_dbg != got:
                viol.append("same source and inputs, different result with DEBUG logging on: %r, with it off: %r (%s) | inputs=%r | %s"
                            % (got_dbg, got, ctx, common.short_env(env), texts[si]))
        contexts.setdefault(key, set()).add(ctx)
        if key not in table:
            table[key] = got
        elif table[key] != got:
            viol.append("same source and inputs, different result: first %r, now %r (%s) | inputs=%r | %s"
                        % (table[key], got, ctx, common.short_env(env), texts[si]))

    state0 = common.global_state()
    try:
        for si in range(len(texts)):
            evs.append([E(texts[si]), si])
        for n, (k, e, si, ii) in enumerate(case["ops"]):
            e = e % len(evs)
            if n:
                changed = common.state_diff(state0, common.global_state())
                if changed:
                    viol.append("interpreter-wide state was changed by step %d %r: %s" % (n - 1, case["ops"][n - 1], "; ".join(changed)))
                    break
            if k == "noise":
                # somebody else compiles something odd in the same process (outcome irrelevant): later results must not care
                sut.compile_text(NOISE[(e + si + ii) % len(NOISE)])
            elif k == "new":
                if len(evs) < 6:
                    evs.append([E(texts[si]), si])
                    observe(si, ii, evs[-1][0], "new instance #%d" % (len(evs) - 1))
            elif k == "recompile":
                evs[e][0].recompile(texts[si])
                evs[e][1] = si
                observe(si, ii, evs[e][0], "instance #%d after recompile" % e)
            elif k == "recompile_failing":
                # a deploy that goes wrong (the text is refused), followed by the roll-back to the text that was live
                try:
                    evs[e][0].recompile(NOISE_INVALID[(si + ii) % len(NOISE_INVALID)])
                except Exception:
                    pass
                if ii % 2:
                    evs[e][0].recompile(texts[evs[e][1]])
                observe(evs[e][1], ii, evs[e][0], "instance #%d after a refused recompile%s" % (e, " and the roll-back to the live text" if ii % 2 else ""))
            elif k == "burst":
                # a long run of one and the same call (a traffic burst from one segment), only the last one observed
                env = M.dec_inputs(case["inputs"][evs[e][1]][ii % len(case["inputs"][evs[e][1]])])
                for _ in range(si):
                    sut.call(evs[e][0], env)
                observe(evs[e][1], ii, evs[e][0], "instance #%d after a burst of %d identical calls" % (e, si))
            elif k == "recompile_same":
                evs[e][0].recompile(texts[evs[e][1]])
                observe(evs[e][1], ii, evs[e][0], "instance #%d after same-text recompile" % e)
            elif k == "cycle_nocall":
                # A -> B -> A with NO call in between (nothing may stay pending from the intermediate text)
                cur = evs[e][1]
                evs[e][0].recompile(texts[si])
                evs[e][0].recompile(texts[cur])
                observe(cur, ii, evs[e][0], "instance #%d after cycle A->B->A without a call in between" % e)
            elif k == "cycle":
                cur = evs[e][1]
                evs[e][0].recompile(texts[si])
                observe(si, ii, evs[e][0], "instance #%d mid-cycle" % e)
                evs[e][0].recompile(texts[cur])
                observe(cur, ii, evs[e][0], "instance #%d after cycle A->B->A" % e)
            else:
                observe(evs[e][1], ii, evs[e][0], "instance #%d call at step %d" % (e, n))
                if ii % 2 and not case.get("plain"):
                    observe(evs[e][1], ii + 1, evs[e][0], "instance #%d call at step %d" % (e, n))
                    observe(evs[e][1], ii, evs[e][0], "instance #%d repeated call at step %d" % (e, n))
        if not viol:
            changed = common.state_diff(state0, common.global_state())
            if changed:
                viol.append("interpreter-wide state was changed by the last step %r: %s" % (case["ops"][-1], "; ".join(changed)))
    except Exception as ex:
        viol.append("history raised %s: %s | ops=%r | %s" % (type(ex).__name__, str(ex)[:200], case["ops"], texts))
        for _ in range(2):
            sut.compile_text('/* reset */ def r { return "a" weighted 1 }')
    if viol:
        common.restore_state(state0)
    nt_keys = []
    for (si, ii), ctxs in contexts.items():
        if len(ctxs) >= 2 and _multi(case["sources"][si]):
            nt_keys.append([texts[si], case["inputs"][si][ii]])
    return {"viol": viol[:4], "nontrivial": bool(nt_keys), "tags": ["in-process-history"], "key": nt_keys or texts,
            "sample": {"sources": [t[:200] for t in texts], "ops": case["ops"][:10]}}


def _multi(prog):
    return any(sum(1 for g in r["groups"] if float(g["w"]) > 0) >= 2 for r in M.returns(prog["body"]))


# --------------------------------------------------------------------------- cross-process
CONFIGS = [
    {"PYTHONHASHSEED": "0", "LANG": "C", "LC_ALL": "C", "PYTHONUTF8": "0", "cwd": "/"},
    {"PYTHONHASHSEED": "1", "LANG": "C.UTF-8", "LC_ALL": "C.UTF-8", "PYTHONUTF8": "1", "cwd": "tmp", "PYAB_CHILD_ORDER": "reverse"},
    {"PYTHONHASHSEED": "4242", "LANG": "tr_TR.UTF-8", "LC_ALL": "tr_TR.UTF-8", "PYTHONUTF8": "0", "cwd": "/usr"},
    {"PYTHONHASHSEED": "random", "LANG": "POSIX", "LC_ALL": "POSIX", "PYTHONUTF8": "0", "cwd": "tmp", "PYAB_CHILD_ORDER": "interleave"},
    {"PYTHONHASHSEED": "random", "LANG": "C.UTF-8", "LC_ALL": "", "PYTHONUTF8": "1", "cwd": "/"},
    {"PYTHONHASHSEED": "2", "LANG": "", "LC_ALL": "", "PYTHONUTF8": "0", "cwd": "/var", "PYAB_CHILD_ORDER": "reverse"},
    {"PYTHONHASHSEED": "3", "LANG": "de_DE.ISO-8859-1", "LC_ALL": "de_DE.ISO-8859-1", "PYTHONUTF8": "0", "cwd": "/"},
    {"PYTHONHASHSEED": "4294967295", "LANG": "C", "LC_ALL": "C", "PYTHONUTF8": "1", "cwd": "/etc"},
    {"PYTHONHASHSEED": "random", "LANG": "C", "LC_ALL": "C", "PYTHONUTF8": "0", "cwd": "/"},
    {"PYTHONHASHSEED": "random", "LANG": "C.UTF-8", "LC_ALL": "C.UTF-8", "PYTHONUTF8": "0", "cwd": "/"},
    {"PYTHONHASHSEED": "12345", "LANG": "POSIX", "LC_ALL": "POSIX", "PYTHONUTF8": "1", "cwd": "tmp"},
    {"PYTHONHASHSEED": "99", "LANG": "tr_TR.UTF-8", "LC_ALL": "", "PYTHONUTF8": "1", "cwd": "/usr"},
    # a working directory nothing can be written to (not even by root): importing / compiling must not need the cwd
    {"PYTHONHASHSEED": "7", "LANG": "C.UTF-8", "LC_ALL": "C.UTF-8", "PYTHONUTF8": "1", "cwd": "/proc", "PYAB_CHILD_ORDER": "reverse"},
    {"PYTHONHASHSEED": "random", "LANG": "C", "LC_ALL": "C", "PYTHONUTF8": "0", "cwd": "/proc/self"},
    # a working directory full of decoys: files NAMED like the source texts, the experiment names and usual config files, each
    # holding a different valid experiment - what a source text means must not depend on what lies around in the cwd
    {"PYTHONHASHSEED": "5", "LANG": "C.UTF-8", "LC_ALL": "C.UTF-8", "PYTHONUTF8": "1", "cwd": "decoys", "PYAB_CHILD_ORDER": "interleave"},
    # a working directory that no longer exists (a worker whose release directory was rotated away): os.getcwd() raises there
    {"PYTHONHASHSEED": "8", "LANG": "C.UTF-8", "LC_ALL": "C.UTF-8", "PYTHONUTF8": "1", "cwd": "vanishing", "PYAB_CHILD_RMCWD": "1"},
]


@st.composite
def batches(draw, nprog, nconf):
    items = []
    for _ in range(nprog):
        sk = draw(_source())
        iv = gen.interesting_values(sk["prog"], sk["classes"])
        text = M.render(sk["prog"])
        for j in range(draw(st.integers(6, 12))):
            items.append({"text": text, "inputs": M.enc_inputs(draw(_inputs(sk["prog"], sk["classes"], iv))), "multi": _multi(sk["prog"])})
            if j % 3 == 0 and all(isinstance(v, (str, int, float, bool, type(None))) for v in M.dec_inputs(items[-1]["inputs"]).values()):
                # (positional binding may hand a condition field's value to a splitter: only values of the property's own
                # domain, whose str() is the same in every process - a set's is not)
                items.append(dict(items[-1], positional=True))
    for text in SHORT_TEXTS:
        for u in range(4):
            items.append({"text": text, "inputs": M.enc_inputs({"uid": "u%d" % u, "plan": "pro"}), "multi": True})
    confs = draw(st.lists(st.integers(0, len(CONFIGS) - 5), min_size=nconf - 1, max_size=nconf - 1, unique=True))
    confs.append(len(CONFIGS) - 3 - draw(st.integers(0, 1)))  # always one child in an unwritable working directory
    confs.append(len(CONFIGS) - 2)  # one in a directory of decoy files
    confs.append(len(CONFIGS) - 1)  # and one whose working directory has been deleted
    return {"batch": items, "configs": confs}


def _wide(name, ws, salt):
    return "def %s { salt: \"%s\" splitters: uid return %s }" % (name, salt, ", ".join('"g%d" weighted %s' % (i, w) for i, w in enumerate(ws)))


# return statements with the same NUMBER of groups (12) and different weights, in several programs and in two branches of one:
# evaluated in another order by some of the children (what a statement selects must not depend on what was evaluated before)
WIDE_TEXTS = [_wide("wide_a", range(1, 13), "w"), _wide("wide_b", range(12, 0, -1), "w"), _wide("wide_c", [1] * 11 + [50], "w"),
              'def wide_d { salt: "w" splitters: uid if plan == "pro" { return %s } else { return %s } }'
              % (", ".join('"p%d" weighted %d' % (i, 1 + i % 3) for i in range(12)), ", ".join('"q%d" weighted %d' % (i, 5 - i % 5) for i in range(12)))]
SHORT_TEXTS = ['def e{splitters:uid return 1 weighted 1,2 weighted 1}', 'def exp { splitters: uid return "A" weighted 1, "B" weighted 1 }',
               'def exp { salt: "s" splitters: uid, plan return "A" weighted 1, "B" weighted 3 }']
DECOY = 'def %s { splitters: uid, plan return "DECOY" weighted 1 }'


def _decoys(d, texts):
    """fill directory d with files named like the texts / experiment names / usual config names, each a different experiment"""
    import re

    os.mkdir(d)
    names = set()
    for t in texts:
        m = re.match(r"\s*def\s+([A-Za-z_][A-Za-z0-9_]*)", t)
        ident = m.group(1) if m else "exp"
        for n in (t, t.strip(), ident, ident + ".pyab", ident + ".py", ident + ".txt", ident + ".json"):
            names.add((n, ident))
    for n in ("experiment.pyab", "config.pyab", ".pyab", "pyab.cfg", "pyab.ini", "pyab.toml", ".pyabrc", "experiments.json", "salt", "salt.txt"):
        names.add((n, "exp"))
    made = 0
    for n, ident in sorted(names):
        if "/" in n or "\x00" in n or n in ("", ".", "..") or len(n.encode("utf-8", "surrogatepass")) > 255:
            continue
        try:
            with open(os.path.join(d, n), "w", encoding="utf-8") as f:
                f.write(DECOY % ident)
            made += 1
        except (OSError, UnicodeError):
            pass
    return made


def _scalar_only(enc_inputs):
    return all(isinstance(v, (str, int, float, bool, type(None))) for v in M.dec_inputs(enc_inputs).values())


def judge_batch(case):
    # positional calls are judged only for values of the property's own domain (see batches())
    items = [dict(it, positional=bool(it.get("positional")) and _scalar_only(it["inputs"])) for it in case["batch"]]
    viol = []
    # parent observations (this process)
    evs = {}
    prepared = []
    for it in items:
        if it["text"] not in evs:
            evs[it["text"]] = sut.compile_text(it["text"])
        prepared.append((evs[it["text"]], M.dec_inputs(it["inputs"]), sut.call_positional if it.get("positional") else sut.call))
    raw = [fn(r[1], env) if r[0] == "ok" else None for r, env, fn in prepared]  # back to back, nothing of the harness in between
    parent = [["compile-error", r[1]] if r[0] != "ok" else _canon(o) for (r, env, fn), o in zip(prepared, raw)]
    tmp = tempfile.mkdtemp(prefix="pyab_c01_")
    env_keys = set()
    try:
        path = os.path.join(tmp, "batch.json")
        with open(path, "w", encoding="ascii") as f:
            json.dump([{"text": it["text"], "inputs": it["inputs"], "positional": bool(it.get("positional"))} for it in items], f, ensure_ascii=True)
        procs = []
        for ci in case["configs"]:
            cfg = CONFIGS[ci] if isinstance(ci, int) else ci
            env = {k: v for k, v in os.environ.items() if not k.startswith(("LC_", "LANG", "PYTHON"))}
            env.update({k: v for k, v in cfg.items() if k != "cwd" and v != ""})
            env["PYTHONCOERCECLOCALE"] = "0"
            env["PYTHONDONTWRITEBYTECODE"] = "1"
            env["PYAB_SRC"] = os.environ.get("PYAB_SRC", "/repo/src")
            env["PYTHONPATH"] = os.pathsep.join([env["PYAB_SRC"], VERIF])
            cwd = tmp if cfg["cwd"] == "tmp" else cfg["cwd"]
            if cfg["cwd"] == "vanishing":
                cwd = os.path.join(tmp, "vanishing")
                os.mkdir(cwd)
            if cfg["cwd"] == "decoys":
                cwd = os.path.join(tmp, "decoys")
                _decoys(cwd, sorted({it["text"] for it in items}))
            procs.append((ci, subprocess.Popen([sys.executable, "-B", os.path.join(VERIF, "pyabverif", "child_eval.py"), path],
                                               env=env, cwd=cwd, stdout=subprocess.PIPE, stderr=subprocess.PIPE)))
        for ci, p in procs:
            so, se = p.communicate()
            if p.returncode != 0:
                raise runner.HarnessError("child interpreter failed (config %r): %s" % (ci, se.decode("ascii", "replace")[-800:]))
            tr = json.loads(so.decode("ascii"))
            env_keys.update(tr.get("env_keys", []))
            extra = "" if isinstance(ci, int) else " with environment %r" % ({k: v for k, v in ci.items() if k not in CONFIGS[0]},)
            for it, a, b in zip(items, parent, tr["results"]):
                if a != b:
                    viol.append("process-dependent result: this process %r, child (PYTHONHASHSEED=%s, locale=%s, cwd=%s)%s %r | inputs=%r | %s"
                                % (a, tr["hashseed"], tr["locale"], tr["cwd"], extra, b, common.short_env(M.dec_inputs(it["inputs"])), it["text"]))
                    if len(viol) >= 4:
                        break
    finally:
        import shutil

        shutil.rmtree(tmp, ignore_errors=True)
    keys = [[it["text"], it["inputs"]] for it in items if it["multi"]]
    return {"viol": viol[:4], "nontrivial": bool(keys), "tags": ["cross-process", "children:%d" % len(case["configs"])],
            "key": keys, "multi_keys": keys, "env_keys": sorted(env_keys),
            "sample": {"batch_size": len(items), "configs": [CONFIGS[c] if isinstance(c, int) else c for c in case["configs"]],
                                                        "first_item": {"text": items[0]["text"][:200], "inputs": M.dec_inputs(items[0]["inputs"])} if items else None}}


def judge_case(record):
    if record.get("part") == "texts-that-differ-only-in-lone-surrogates":
        return judge_if_accepted(record["case"])["viol"]
    c = record["case"]
    return (judge_batch(c) if "batch" in c else judge(c))["viol"]


def k1_probe(rec):
    ids = set()
    for k in runner.known_for("C01"):
        ids |= set(k.get("identifiers", []))
    n = "choose_experiment_variant"
    items = []
    for g in (16, 17, 23, 32, 50, 64):
        prog = M.program("exp", M.ret([(M.lit_str("g%d" % j), "1") for j in range(g)]), splitters=[n])
        items.append({"text": M.render(prog), "inputs": M.enc_inputs({n: "unit-1"}), "multi": True})
    v = judge_batch({"batch": items, "configs": [1, 3, 4]})
    if v["viol"]:
        if n in ids:
            rec.known_finding("K1", "a splitter named choose_experiment_variant makes the key contain a memory address: results "
                              "differ between processes (still failing)")
            return True
        rec.violation("k1-probe", {"batch": items, "configs": [1, 3, 4]}, v["viol"])
        return False
    return True


def fixed_histories():
    """==-equal values that print differently, called in opposite orders on two instances of the same source"""
    vals = [1, True, 1.0, 0, False, -0.0, 0.0, 2, 2.0, 10 ** 20, 1e20, "", "1", None, "user\udc80", "user\udc80"]
    for ng, salt in ((16, None), (7, "s1"), (64, "")):
        prog = M.program("exp", M.ret([(M.lit_str("g%d" % j), "1") for j in range(ng)]), salt=salt, splitters=["uid"])
        inputs = [M.enc_inputs({"uid": v}) for v in vals]
        n = len(vals)
        # evaluators #0 and #1 exist from the start (same source), "new" adds #2; results are keyed by (source, inputs), so
        # every call below on any of the three must agree with the first observation
        ops = [["call", 0, 0, i] for i in range(n)] + [["new", 0, 0, n - 1]] + [["call", 2, 0, i] for i in reversed(range(n))]
        ops += [["recompile", 1, 0, 0]] + [["call", 1, 0, i] for i in (11, 3, 0, 2, 1)]
        ops += [["recompile_same", 0, 0, 3], ["cycle", 2, 0, 5]] + [["call", 0, 0, i] for i in (2, 1, 0, 6, 5, 4, 3, 11)]
        # deploys that go wrong (every kind of refused text), each followed by the roll-back to the live text; then every
        # kind of odd text compiled by somebody else in the process (incl. literals at CPython's int <-> text limit)
        for j in range(len(NOISE_INVALID)):
            ops += [["recompile_failing", j % 3, j, 1], ["call", j % 3, 0, j], ["recompile_failing", j % 3, j, 0], ["call", j % 3, 0, j + 1]]
        for j in range(len(NOISE)):
            ops += [["noise", 0, 0, j], ["call", j % 3, 0, j]]
        yield {"sources": [prog, prog], "inputs": [inputs, inputs], "ops": ops, "plain": True}


def judge_if_accepted(case):
    """texts the library may refuse outright (lone surrogates cannot be encoded for the change-detection checksum): refused by a
    fresh evaluator -> nothing to compare; accepted -> they are sources like any other and the whole history must hold"""
    for t in case["texts"]:
        if sut.compile_text(t)[0] != "ok":
            return {"viol": [], "nontrivial": False, "tags": ["text-refused-by-the-library"], "key": case["texts"]}
    return judge(case)


def surrogate_histories():
    """pairs of texts that differ only in lone-surrogate code points (files read with errors='surrogateescape'): in a group
    name, in the salt, in a comment"""
    body = M.ret([(M.lit_str("A"), "1"), (M.lit_str("B"), "1")])
    prog = M.program("exp", body, splitters=["uid"])
    inputs = [M.enc_inputs({"uid": "u%d" % i}) for i in range(12)]
    pairs = [('def exp { splitters: uid return "ctl\udc80" weighted 1, "B" weighted 1 }', 'def exp { splitters: uid return "ctl\udc81" weighted 1, "B" weighted 1 }'),
             ('def exp { salt: "s\udc80" splitters: uid return "A" weighted 1, "B" weighted 1 }', 'def exp { salt: "s\udcff" splitters: uid return "A" weighted 1, "B" weighted 1 }'),
             ('def exp { splitters: uid return "A" weighted 1, "B" weighted 1 } // \udc80', 'def exp { splitters: uid return "A" weighted 3, "B" weighted 1 } // \udc81'),
             ('def exp { splitters: uid return "\ud800" weighted 1, "B" weighted 1 }', 'def exp { splitters: uid return "?" weighted 1, "B" weighted 1 }')]
    for a, b in pairs:
        ops = [["call", 0, 0, i] for i in range(12)] + [["call", 1, 1, i] for i in range(12)]
        ops += [["recompile", 0, 1, 0]] + [["call", 0, 1, i] for i in range(12)] + [["recompile", 0, 0, 0]] + [["call", 0, 0, i] for i in range(12)]
        ops += [["cycle", 1, 0, 3], ["cycle_nocall", 0, 1, 4]] + [["call", 1, 1, i] for i in range(12)] + [["call", 0, 0, i] for i in range(12)]
        yield {"texts": [a, b], "sources": [prog, prog], "inputs": [inputs, inputs], "ops": ops, "plain": True}


def burst_histories():
    """long runs of one kind of outcome (unroutable, missing field, ill-typed value, one group) between observations: how often
    something happened before is no input of a later call"""
    text = ('def exp { salt: "b" splitters: uid if country in ("US", "CA") { return "A" weighted 1, "B" weighted 1, "C" weighted 1 } '
            'else if age > 17 { return "D" weighted 1, "E" weighted 1 } }')
    good = [{"uid": "u%d" % i, "country": ["US", "CA", "FR"][i % 3], "age": 30} for i in range(9)]
    odd = [{"uid": "u1", "country": "FR", "age": 3}, {"uid": "u1", "country": "FR"}, {"uid": "u1", "country": "FR", "age": "x"},
           {"uid": "u1", "country": None, "age": None}, {"uid": "u2", "country": "US", "age": 1}]
    inputs = [M.enc_inputs(e) for e in good + odd]
    for n in (700, 3000):
        ops = [["call", 0, 0, i] for i in range(len(inputs))]
        for j in range(len(odd)):
            ops += [["burst", 0, n, len(good) + j]] + [["call", 0, 0, i] for i in range(len(good))]
            ops += [["recompile_same", 0, 0, j]] + [["call", 0, 0, i] for i in range(len(inputs))]
        ops += [["new", 0, 0, 0]] + [["call", 1, 0, i] for i in range(len(inputs))]
        yield {"texts": [text], "sources": [M.program("exp", M.ret([(M.lit_str("A"), "1"), (M.lit_str("B"), "1")]), splitters=["uid"])],
               "inputs": [inputs], "ops": ops, "plain": True}


def attribute_named_histories():
    """experiments NAMED like attributes / methods of the evaluator object (recompile, run_experiment, __call__ ...): the name of
    an experiment is only a name - recompiling such an evaluator to another source must still switch it"""
    inputs = [M.enc_inputs({"uid": "unit-%d" % j}) for j in range(10)]
    n = len(inputs)
    for name in ("recompile", "run_experiment", "__call__", "_checksum", "__init__", "__class__", "__dict__", "source_code"):
        a = M.program(name, M.ret([(M.lit_str("a%d" % j), "1") for j in range(8)]), salt="A", splitters=["uid"])
        b = M.program("plain", M.ret([(M.lit_str("b%d" % j), "1") for j in range(8)]), salt="B", splitters=["uid"])
        ops = [["call", 0, 0, j] for j in range(n)] + [["call", 1, 1, j] for j in range(n)]
        ops += [["recompile", 0, 1, 0]] + [["call", 0, 1, j] for j in range(n)]        # ev0: <name> -> plain
        ops += [["recompile", 1, 0, 0]] + [["call", 1, 0, j] for j in range(n)]        # ev1: plain -> <name>
        ops += [["cycle", 0, 0, 1], ["cycle_nocall", 1, 1, 2], ["new", 0, 0, 3], ["recompile", 2, 1, 4]] + [["call", 2, 1, j] for j in range(n)]
        yield {"sources": [a, b], "inputs": [inputs, inputs], "ops": ops, "plain": True}


def logrecord_named_histories():
    """fields named like attributes of a logging record (name, module, message, process ...), called with DEBUG logging off and on"""
    names = ["name", "module", "message", "msg", "args", "process", "thread", "created", "filename", "lineno", "levelname", "exc_info", "extra", "asctime"]
    for k in range(0, len(names), 3):
        sp = names[k:k + 3]
        body = M.if_([(M.cmp_(M.ident(sp[-1]), "==", M.lit_str("x")), M.ret([(M.lit_str("a%d" % j), "1") for j in range(8)]))], M.ret([(M.lit_str("b%d" % j), "1") for j in range(8)]))
        prog = M.program("exp", body, salt="s", splitters=sp[:-1] or sp)
        inputs = [M.enc_inputs(dict({n: "%s-%d" % (n, j) for n in sp}, **{sp[-1]: ["x", "y"][j % 2], names[(k + 5) % len(names)]: "extra"})) for j in range(6)]
        ops = [["call", 0, 0, j] for j in range(6)] + [["new", 0, 0, 0]] + [["call", 2, 0, j] for j in range(6)]
        yield {"sources": [prog, prog], "inputs": [inputs, inputs], "ops": ops, "plain": True, "debug_toggle": True}


def neighbour_histories():
    """two sources that differ only in blanks / after a // / in letter case inside a string: an evaluator cycled A -> B -> A
    must agree with fresh evaluators of A and of B at every stage"""
    pairs = [("spring sale", "spring  sale"), ("https://x.example/a", "https://x.example/b"), ("v /* 1 */", "v /* 2 */"), ("Exp", "exp"),
             ("s", "s "), ("tab\there", "tab here")]
    for i, (s1, s2) in enumerate(pairs):
        def prog(salt, lab):
            return M.program("exp", M.ret([(M.lit_str(lab), "1")] + [(M.lit_str("g%d" % j), "1") for j in range(15)]), salt=salt, splitters=["uid"])
        variants = [(prog(s1, "L"), prog(s2, "L")), (prog("k", s1), prog("k", s2))]
        for a, b in variants:
            inputs = [M.enc_inputs({"uid": "unit-%d" % j}) for j in range(12)]
            n = len(inputs)
            ops = [["call", 0, 0, j] for j in range(n)] + [["call", 1, 1, j] for j in range(n)]          # fresh A (ev0), fresh B (ev1)
            ops += [["recompile", 0, 1, 0]] + [["call", 0, 1, j] for j in range(n)]                      # ev0: A -> B
            ops += [["recompile", 0, 0, 0]] + [["call", 0, 0, j] for j in range(n)]                      # ev0: B -> A
            ops += [["cycle", 1, 0, 3]] + [["call", 1, 1, j] for j in range(n)]                          # ev1: B -> A -> B
            ops += [["cycle_nocall", 0, 1, 2]] + [["call", 0, 0, j] for j in range(n)]                   # ev0: A -> B -> A, no call between
            yield {"sources": [a, b], "inputs": [inputs, inputs], "ops": ops, "plain": True}


def run(ctx, rec):
    if ctx.shard == 0 and not k1_probe(rec):
        return
    if ctx.shard == 0:
        runner.direct_run(ctx, rec, "neighbour-histories", neighbour_histories(), judge)
        if rec.violations:
            return
    if ctx.shard == 0:
        runner.direct_run(ctx, rec, "fixed-histories", fixed_histories(), judge)
        if rec.violations:
            return
        runner.direct_run(ctx, rec, "texts-that-differ-only-in-lone-surrogates", surrogate_histories(), judge_if_accepted)
        if rec.violations:
            return
        runner.direct_run(ctx, rec, "bursts", burst_histories(), judge)
        if rec.violations:
            return
        runner.direct_run(ctx, rec, "experiments-named-like-evaluator-attributes", attribute_named_histories(), judge)
        if rec.violations:
            return
        runner.direct_run(ctx, rec, "fields-named-like-log-record-attributes", logrecord_named_histories(), judge)
        if rec.violations:
            return
    runner.hyp_run(ctx, rec, "in-process-histories", histories(), judge, ctx.n(120, 800))
    if rec.violations:
        return
    nb = ctx.n(2, 3)
    if ctx.shard == 0:
        # every child configuration (hash seeds, locales incl. C / POSIX with UTF-8 mode off, working directories) on a fixed batch
        # with non-ASCII salts and values, falsy values and several splitters
        fixed_items = []
        for text in WIDE_TEXTS:
            for u in range(6):
                fixed_items.append({"text": text, "inputs": M.enc_inputs({"uid": "u%d" % u, "plan": ["pro", "free"][u % 2]}), "multi": True})
        for text in SHORT_TEXTS + ['def exp { salt: "é-日本" splitters: uid, plan return "A" weighted 1, "B" weighted 1, "C" weighted 2 }',
                                   'def exp { splitters: Zeta, alpha, Beta, uid return "A" weighted 1, "B" weighted 1, "C" weighted 1, "D" weighted 1 }']:
            for u in ["u1", "josé", "日本語", "\U0001f600", "", 0, None, 1.5, True, "İ", "ß"]:
                fixed_items.append({"text": text, "inputs": M.enc_inputs({"uid": u, "plan": "prö", "Zeta": "z", "alpha": u, "Beta": "β"}), "multi": True})
        # calls that no branch routes, with non-ASCII values (children whose standard streams cannot encode them included)
        for u in ["josé", "日本語", "\U0001f600", "ß", "u1"]:
            for plan in ("frëe", "free"):
                fixed_items.append({"text": 'def exp { salt: "é" splitters: uid if plan == "pro" { return "A" weighted 1, "B" weighted 1 } }',
                                    "inputs": M.enc_inputs({"uid": u, "plan": plan}), "multi": True})
        # the compiled function called with POSITIONAL values (exactly the declared fields, in alphabetical order of their names)
        for text, names in (('def exp { splitters: Zeta, alpha, Beta, uid return "A" weighted 1, "B" weighted 1, "C" weighted 1, "D" weighted 1 }', ["Zeta", "alpha", "Beta", "uid"]),
                            ('def exp { salt: "p" splitters: uid, region if plan == "pro" and tier != "x" { return "A" weighted 1, "B" weighted 1, "C" weighted 1 } else { return "D" weighted 1, "E" weighted 1 } }',
                             ["uid", "region", "plan", "tier"]),
                            ('def exp { splitters: b, a if z > 1 or c > 1 { return "A" weighted 1, "B" weighted 1 } else { return "C" weighted 1, "D" weighted 1 } }', ["b", "a", "z", "c"])):
            for u in range(8):
                env = {n: (u * 7 + j * 3) % 5 if text.startswith("def exp { splitters: b") else "%s%d" % (n[0], (u * 7 + j * 3) % 5) for j, n in enumerate(names)}
                if "plan" in env:
                    env["plan"] = ["pro", "free"][u % 2]
                fixed_items.append({"text": text, "inputs": M.enc_inputs(env), "multi": True, "positional": True})
        v = judge_batch({"batch": fixed_items, "configs": list(range(len(CONFIGS))) + [dict(CONFIGS[0], PYAB_ENVSPY="1")]})
        rec.evaluations += 1
        rec.count("fixed-cross-process")
        for k in v.pop("multi_keys", []):
            rec.nontrivial.add(runner.digest(k))
        if v["viol"]:
            rec.violation("fixed-cross-process", {"batch": fixed_items, "configs": list(range(len(CONFIGS)))}, v["viol"])
            return
        # the host's environment is no input of an experiment: every variable the library was seen to consult (none at all on the
        # pinned tree) is set to a few plausible values in further children
        from .. import envspy

        rec.count("environment-variables-consulted-by-the-library", len(v["env_keys"]))
        if v["env_keys"]:
            confs = [dict(CONFIGS[0], **{k: val}) for k in v["env_keys"][:6] for val in envspy.VALUES]
            v2 = judge_batch({"batch": fixed_items, "configs": confs})
            rec.evaluations += 1
            if v2["viol"]:
                rec.violation("fixed-cross-process-environment", {"batch": fixed_items, "configs": confs}, v2["viol"])
                return

    def jb(case):
        v = judge_batch(case)
        # count every (source, inputs) pair observed in >= 2 processes as its own distinct non-trivial case
        for k in v.pop("multi_keys", []):
            rec.nontrivial.add(runner.digest(k))
        rec.count("cross_process_observations", len(case["batch"]) * (1 + len(case["configs"])))
        return v

    runner.hyp_run(ctx, rec, "cross-process", batches(ctx.n(25, 30), ctx.n(4, 6)), jb, nb, shrink=False)
