"""C18 - confidence-interval helpers are well-formed, conservative and as documented."""
import math
from statistics import NormalDist

from hypothesis import strategies as st

from .. import runner, sut

ID = "C18"
RULE = ("confidence_interval(n, p, confidence, method) on n = log grid 1..1e9 + generated ints, p = grid of [0,1] incl. 0 "
        "and 1 + generated floats, confidence = grid of (0,1) incl. 1e-6 and 1-1e-12, both methods in any letter case, "
        "unknown method names; probit(alpha) on a dense grid of (0,1) + generated floats. Oracles: lower<=upper; equality "
        "(rel 1e-12) with my transcription of the Agresti-Coull / Wald formula evaluated with the module's own probit; "
        "width non-increasing in n and non-decreasing in confidence along grid lines; probit symmetric and >= the exact "
        "normal quantile (statistics.NormalDist); NotImplementedError for unknown methods. Non-trivial = every grid "
        "point / generated argument tuple; distinct by arguments.")
ASSUMPTIONS = [
    "z used by the helper is probit(alpha/2) with alpha = 1 - confidence (module's own z-score, as the property says)",
    "relative tolerances: formula 1e-12; monotonicity slack 1e-12 relative; symmetry 1e-9 relative + 1e-12 absolute "
    "(cancellation in 1-alpha near 0.5); conservativeness slack 1e-12",
    "confidence values so close to 1 that 1-confidence underflows the double grid (alpha/2 == 0) are outside the domain",
]
SHARDS = {"quick": 1, "thorough": 16}

N_GRID = sorted({int(round(10 ** (e / 4))) for e in range(0, 37)} | {1.5, 2.5, 10 ** 0.25, 31.6, 99.9, 1000.5, 10 ** 6.5})  # effective sample sizes need not be whole
P_GRID = [0.0, 1e-12, 1e-6, 0.001, 0.01, 0.05, 0.1, 0.2, 0.25, 0.3, 1 / 3, 0.4, 0.5, 0.6, 2 / 3, 0.75, 0.9, 0.99, 0.999999, 1 - 1e-12, 1.0]
C_GRID = [1e-6, 0.001, 0.1, 0.5, 0.8, 0.9, 0.95, 0.99, 0.999, 0.9999, 0.999999, 1 - 1e-9, 1 - 1e-12]
METHODS = ["agresti-coull", "wald", "Agresti-Coull", "WALD", "Wald", "AGRESTI-COULL", "aGrEsTi-cOuLl"]


def _close(a, b, rel=1e-12, abs_=1e-15):
    return abs(a - b) <= max(rel * max(abs(a), abs(b)), abs_)


def _textbook(n, p, conf, method, z):
    if method.lower() == "wald":
        half = z * math.sqrt(p * (1 - p) / n)
        return p - half, p + half
    n2 = n + z * z
    p2 = (p * n + z * z / 2) / n2
    half = z * math.sqrt(p2 * (1 - p2) / n2)
    return p2 - half, p2 + half


def judge_ci(case):
    S = sut.stats_mod()
    n, p, conf, method = case["n"], case["p"], case["c"], case["m"]
    viol = []
    tags = ["ci:" + method.lower()]
    try:
        lo, hi = S.confidence_interval(n, p, conf, method)
        z = S.probit((1 - conf) / 2)
    except Exception as e:
        return {"viol": ["confidence_interval(%r,%r,%r,%r) raised %s: %s" % (n, p, conf, method, type(e).__name__, e)], "tags": tags}
    if not all(isinstance(x, (int, float)) and not isinstance(x, bool) and math.isfinite(x) for x in (lo, hi, z)):
        return {"viol": ["confidence_interval(%r,%r,%r,%r) returned non-real / non-finite bounds (%r, %r), z=%r"
                         % (n, p, conf, method, lo, hi, z)], "tags": tags}
    if not (lo <= hi):
        viol.append("lower %r > upper %r for n=%r p=%r conf=%r %s" % (lo, hi, n, p, conf, method))
    # the helpers are pure: asking again (right away, and after other calls in between) gives the same answer
    try:
        again = S.confidence_interval(n, p, conf, method)
        S.probit(0.3)
        S.confidence_interval(7, 0.5, 0.5, "wald")
        third = S.confidence_interval(n, p, conf, method)
        z_again = S.probit((1 - conf) / 2)
    except Exception as e:
        return {"viol": ["repeated call raised %s: %s" % (type(e).__name__, e)], "tags": tags}
    if (lo, hi) != tuple(again) or (lo, hi) != tuple(third) or z != z_again:
        viol.append("confidence_interval(%r,%r,%r,%r) is not repeatable: %r, then %r, then %r (z %r / %r)"
                    % (n, p, conf, method, (lo, hi), again, third, z, z_again))
    # the same numbers handed over in another numeric type (p = 0 / 1 as int, n as float) mean the same thing
    alts = []
    if p in (0.0, 1.0):
        alts.append(("p as the int %d" % int(p), (n, int(p), conf, method)))
    if isinstance(n, int) and n < 2 ** 53:
        alts.append(("n as the float %r" % float(n), (float(n), p, conf, method)))
    if isinstance(conf, float):
        import decimal
        import fractions

        if isinstance(n, int):
            alts.append(("n and p as exact numbers", (fractions.Fraction(n), p, conf, method)))
    for what, args in alts:
        try:
            r = tuple(S.confidence_interval(*args))
        except Exception as e:
            viol.append("%s: raised %s: %s (n=%r p=%r conf=%r %s)" % (what, type(e).__name__, e, n, p, conf, method))
            continue
        if not (_close(r[0], lo) and _close(r[1], hi)):
            viol.append("%s gives %r, the float / int form gives %r (n=%r p=%r conf=%r %s)" % (what, r, (lo, hi), n, p, conf, method))
    elo, ehi = _textbook(n, p, conf, method, z)
    if not (_close(lo, elo) and _close(hi, ehi)):
        viol.append("(%r, %r) differs from the textbook %s interval (%r, %r) with z=%r for n=%r p=%r conf=%r"
                    % (lo, hi, method, elo, ehi, z, n, p, conf))
    # never narrower than the interval built with the exact normal quantile
    zq = NormalDist().inv_cdf(1 - (1 - conf) / 2) if 0 < (1 - conf) / 2 < 1 else None
    if zq is not None:
        xlo, xhi = _textbook(n, p, conf, method, zq)
        if method.lower() == "wald" and (hi - lo) < (xhi - xlo) * (1 - 1e-12) - 1e-15:
            viol.append("interval width %r narrower than exact-normal width %r (n=%r p=%r conf=%r %s)" % (hi - lo, xhi - xlo, n, p, conf, method))
    # monotone along grid lines
    try:
        lo2, hi2 = S.confidence_interval(case["n2"], p, conf, method)
        if case["n2"] >= n and (hi2 - lo2) > (hi - lo) * (1 + 1e-12) + 1e-15:
            viol.append("width grows with n: n=%r -> %r, n=%r -> %r (p=%r conf=%r %s)" % (n, hi - lo, case["n2"], hi2 - lo2, p, conf, method))
        lo3, hi3 = S.confidence_interval(n, p, case["c2"], method)
        if case["c2"] >= conf and (hi3 - lo3) < (hi - lo) * (1 - 1e-12) - 1e-15:
            viol.append("width shrinks with confidence: conf=%r -> %r, conf=%r -> %r (n=%r p=%r %s)" % (conf, hi - lo, case["c2"], hi3 - lo3, n, p, method))
    except Exception as e:
        viol.append("raised on neighbour arguments: %s %s" % (type(e).__name__, e))
    return {"viol": viol, "nontrivial": True, "tags": tags, "key": case, "sample": case}


def judge_probit(case):
    S = sut.stats_mod()
    a = case["alpha"]
    viol = []
    try:
        z = S.probit(a)
        z2 = S.probit(1 - a) if 0.0 < 1 - a < 1.0 else z  # 1-a rounds out of (0,1): symmetry not testable here
    except Exception as e:
        return {"viol": ["probit(%r) raised %s: %s" % (a, type(e).__name__, e)], "tags": ["probit"]}
    # the float 1-a carries an absolute rounding error of up to 2^-53, i.e. a relative error of 2^-53/min(a,1-a) in
    # the odds; propagate it through the logit so that only real asymmetry is reported
    arg_err = 2.0 ** -52 / min(a, 1 - a) if 0 < a < 1 else 0.0
    if abs(z - z2) > 1e-9 * max(abs(z), abs(z2)) + 1e-12 + 2 * arg_err:
        viol.append("probit not symmetric: probit(%r)=%r, probit(1-%r)=%r" % (a, z, a, z2))
    if not (isinstance(z, float) and math.isfinite(z)):
        return {"viol": ["probit(%r) = %r is not a finite float" % (a, z)], "tags": ["probit"]}
    # strictly monotone on each side of 0.5 - also for alphas that agree to many decimals (no rounded-key memo)
    for b, strict in ((a * (1 - 1e-7), True), (a * 0.5, True), (math.nextafter(a, 0.0), False)):
        if 0 < b < a <= 0.5:
            zb = S.probit(b)
            if not (zb > z if strict else zb >= z):  # one ulp apart the two may round to the same double
                viol.append("probit(%r)=%r is not larger than probit(%r)=%r" % (b, zb, a, z))
    if S.probit(a) != z:
        viol.append("probit(%r) is not repeatable: %r then %r" % (a, z, S.probit(a)))
    q = abs(NormalDist().inv_cdf(a))
    if z < q * (1 - 1e-12) - 1e-12:
        viol.append("probit(%r)=%r is smaller than the true normal quantile %r" % (a, z, q))
    if z < 0:
        viol.append("probit(%r)=%r negative" % (a, z))
    return {"viol": viol, "nontrivial": True, "tags": ["probit"], "key": case, "sample": case}


def judge_unknown(case):
    """an unknown method is refused - also when asked again right away, and also right after a successful call with the
    same numbers (a remembered result must never stand in for a refusal)"""
    S = sut.stats_mod()
    viol = []
    try:
        S.confidence_interval(case["n"], case["p"], case["c"], "wald")
        S.confidence_interval(case["n"], case["p"], case["c"])
    except Exception as e:
        viol.append("valid call raised %s: %s" % (type(e).__name__, e))
    for attempt in (1, 2, 3):
        try:
            r = S.confidence_interval(case["n"], case["p"], case["c"], case["m"])
            viol.append("unknown method %r accepted on attempt %d, returned %r" % (case["m"], attempt, r))
            break
        except NotImplementedError:
            pass
        except Exception as e:
            viol.append("unknown method %r raised %s instead of NotImplementedError (attempt %d)" % (case["m"], type(e).__name__, attempt))
            break
    return {"viol": viol, "nontrivial": True, "tags": ["unknown-method"], "key": case, "sample": case}


def judge(case):
    if "alpha" in case:
        return judge_probit(case)
    if case.get("unknown"):
        return judge_unknown(case)
    return judge_ci(case)


def judge_case(record):
    return judge(record["case"])["viol"]


def grid(ctx):
    ni = 0
    for i, n in enumerate(N_GRID):
        for p in P_GRID:
            for j, c in enumerate(C_GRID):
                ni += 1
                if ni % ctx.nshards != ctx.shard:
                    continue
                if ctx.quick and ni % 3:
                    continue
                yield {"n": n, "p": p, "c": c, "m": METHODS[ni % len(METHODS)],
                       "n2": N_GRID[min(i + 1, len(N_GRID) - 1)], "c2": C_GRID[min(j + 1, len(C_GRID) - 1)]}


def alpha_grid(ctx):
    m = 20000 if ctx.quick else 200000
    for i in range(1, m):
        if i % ctx.nshards == ctx.shard:
            yield {"alpha": i / m}
    for e in range(3, 17):
        yield {"alpha": 10.0 ** -e}
        yield {"alpha": 1 - 10.0 ** -e}


@st.composite
def gen_ci(draw):
    n = draw(st.one_of(st.integers(1, 100), st.integers(1, 10 ** 9)))
    c = draw(st.floats(min_value=1e-9, max_value=1 - 1e-12, exclude_min=True))
    return {"n": n, "p": draw(st.floats(min_value=0, max_value=1)), "c": c, "m": draw(st.sampled_from(METHODS)),
            "n2": n + draw(st.integers(0, 10 ** 6)), "c2": min(1 - 1e-12, c + draw(st.floats(min_value=0, max_value=0.5)) * (1 - c))}


def run(ctx, rec):
    runner.direct_run(ctx, rec, "ci-grid", grid(ctx), judge_ci)
    if rec.violations:
        return
    runner.direct_run(ctx, rec, "probit-grid", alpha_grid(ctx), judge_probit)
    if rec.violations:
        return
    runner.hyp_run(ctx, rec, "ci-generated", gen_ci(), judge_ci, ctx.n(1500, 8000))
    if rec.violations:
        return
    runner.hyp_run(ctx, rec, "probit-generated",
                   st.builds(lambda a: {"alpha": a}, st.floats(min_value=0, max_value=1, exclude_min=True, exclude_max=True)),
                   judge_probit, ctx.n(1500, 8000))
    if rec.violations:
        return
    unk = st.builds(lambda m, n: {"unknown": True, "m": m, "n": n, "p": 0.5, "c": 0.95},
                    st.one_of(st.sampled_from(["wilson", "", "agresti", "wald ", " wald", "agresti_coull", "clopper-pearson", "Wáld"]),
                              st.text(max_size=8).filter(lambda s: s.lower() not in ("wald", "agresti-coull"))),
                    st.integers(1, 1000))
    runner.hyp_run(ctx, rec, "unknown-method", unk, judge_unknown, ctx.n(150, 500))
