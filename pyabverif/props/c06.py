"""C06 - text outside the grammar is rejected, never silently repaired."""
import os

from hypothesis import strategies as st

from .. import common, gen, gen_text, refgrammar, runner, sut
from .. import model as M

ID = "C06"
RULE = ("(A) token-level: 1-3 mutations (delete, duplicate, swap adjacent / distant, insert or replace a token, insert a "
        "character that belongs to no token (= . ; @ # $ % ^ & * ! ~ ? [ ] | \\ ` / +), prefix / suffix junk, a broken "
        "definition in front of a valid one, two definitions, truncation) of generated grammatical experiments, rendered "
        "whitespace-separated; (B) character-level: delete / insert / transpose / replace single characters of rendered "
        "text and of the 13 repository programs; (C, thorough) atheris coverage-guided fuzzing of raw text. Oracle: an "
        "independent lexer + Earley recogniser of the documented grammar; reject => ExperimentEvaluator(text) must raise "
        "and parse_source(text) must raise or return None, and recompile(text) on a live evaluator holding the unmutated original must raise too. Accepted mutants are only counted (C07's business), ambiguous "
        "ones (single word elseif, unterminated / nested block comment, non-ASCII decimal digits, keyword-prefix readings that disagree) are skipped "
        "and counted - but still compiled, after which (and after every rejected text containing /*) fixed invalid canaries such as "
        "'junk */ def e {...}' must still be rejected (compiling is stateless). Non-trivial = mutated text rejected by the reference; distinct by text.")
RULE += (' Since rounds 6-7: a stray-character sweep (every ASCII character at every token boundary, spaced and glued) and a stray-token sweep (57 small tokens inserted at / substituted for every position) over two base texts.')
RULE += (' Since rounds 14-15: lone surrogates in the sweep; header lines of other languages, strings spanning lines, bare words and doubled signs in the fixed catalogue.')
ASSUMPTIONS = [
    "the reference lexer reads keywords as whole words and `not in` / `else if` as single tokens when separated by whitespace only",
    "texts whose whole-word and first-match keyword readings disagree on acceptance are skipped as ambiguous",
]
SHARDS = {"quick": 1, "thorough": 16}


def _repo_programs():
    d = "/repo/tests/unit/test_programs"
    res = []
    if os.path.isdir(d):
        for fn in sorted(os.listdir(d)):
            with open(os.path.join(d, fn)) as f:
                res.append(f.read())
    return res


@st.composite
def token_cases(draw):
    a = draw(gen.programs(max_depth=2, max_groups=3))["prog"]
    b = draw(gen.programs(max_depth=1, max_groups=2))["prog"]
    toks, kinds = draw(gen_text.mutate_tokens(M.program_tokens(a), M.program_tokens(b)))
    return {"text": M.tokens_text(toks), "kinds": kinds, "level": "token", "base": M.render(a)}


@st.composite
def char_cases(draw, repo_programs):
    if repo_programs and draw(st.integers(0, 3)) == 0:
        base = draw(st.sampled_from(repo_programs))
    else:
        prog = draw(gen.programs(max_depth=2, max_groups=3))["prog"]
        base, _ = draw(gen_text.trivia_variant(M.program_tokens(prog), draw(st.sampled_from(["min", "random", "lines"]))))
    text, kinds = draw(gen_text.mutate_chars(base))
    return {"text": text, "kinds": kinds, "level": "char", "base": base}


def judge(case):
    text = case["text"]
    verdict = refgrammar.classify(text)
    tags = ["level:" + case.get("level", "?"), "reference:" + verdict] + ["mutation:" + k for k in case.get("kinds", [])]
    if verdict == "ambiguous":
        # not judged - but still compiled, so that whatever state it leaves behind is seen by the canaries below
        sut.compile_text(text)
        return {"viol": _canaries(text), "nontrivial": False, "tags": tags, "skipped": "ambiguous"}
    if verdict == "accept":
        return {"viol": [], "nontrivial": False, "tags": tags}
    viol = []
    res = sut.compile_text(text)
    if res[0] == "ok":
        viol.append("text outside the grammar was compiled into an evaluator | %r" % (text,))
    try:
        ast = sut.wrappers().parse_source(text)
        if ast is not None:
            viol.append("parse_source returned an experiment (%s) for text outside the grammar | %r" % (getattr(ast, "id", "?"), text))
    except Exception:
        pass
    base = case.get("base")
    if base and not viol:
        # the same text must also be refused by recompile() on a live evaluator that holds the unmutated original
        rb = sut.compile_text(base)
        if rb[0] == "ok":
            tags.append("recompile-on-live-evaluator")
            try:
                rb[1].recompile(text)
                viol.append("recompile() accepted text outside the grammar without raising (evaluator held %r) | %r" % (base, text))
            except Exception:
                pass
            try:
                # ... and handed over as a temporary that sits at the address of the collected previous text (same size)
                common.recycled_recompile(rb[1], base, text)
                viol.append("recompile() accepted text outside the grammar without raising when the text object's id was recycled (evaluator held %r) | %r" % (base, text))
            except Exception:
                pass
    if "/*" in text:
        viol += _canaries(text)
    return {"viol": viol, "nontrivial": True, "tags": tags, "key": text, "sample": {"text": text[:300], "mutations": case.get("kinds")}}


CANARIES_INVALID = ['junk ; @ */ def e { return "A" weighted 1 }', '*/ def e { return "A" weighted 1 }',
                    'x = 1 \n */ def e { splitters: u return "A" weighted 1, "B" weighted 1 }']
CANARY_VALID = 'def canary { splitters: u return "A" weighted 1, "B" weighted 1 }'


def _canaries(after_text):
    """compiling is stateless: whatever was compiled before, invalid canaries stay rejected and a valid one still compiles"""
    viol = []
    for c in CANARIES_INVALID:
        if sut.compile_text(c)[0] == "ok":
            viol.append("text outside the grammar was compiled into an evaluator: %r - right after compiling %r (state leaked "
                        "from one compile into the next)" % (c, after_text))
            sut.compile_text("/* reset */ " + CANARY_VALID)
            break
    return viol


def run_atheris(ctx, rec, runs, part="atheris"):
    """one libFuzzer campaign in a child process (fresh corpus dir under /verif/scratch, removed afterwards)"""
    import json
    import shutil
    import subprocess
    import sys

    verif = os.path.dirname(os.path.dirname(os.path.dirname(os.path.abspath(__file__))))
    work = os.path.join(verif, "scratch", "atheris-%s-%d-%d" % (ctx.pid, os.getpid(), ctx.shard))
    os.makedirs(work, exist_ok=True)
    out = os.path.join(work, "result.json")
    corpus = "seeded" if ctx.shard % 2 == 0 else "empty"
    try:
        cmd = [sys.executable, "-B", os.path.join(verif, "pyabverif", "fuzz_c06.py"), "--out", out, "--runs", str(runs),
               "--seed", str(ctx.derived_seed("atheris") % (2 ** 31 - 1) + 1), "--corpus", corpus, "--workdir", work]
        p = subprocess.run(cmd, stdout=subprocess.PIPE, stderr=subprocess.PIPE, text=True)
        if not os.path.exists(out):
            rec.note("atheris campaign unavailable: %s" % (p.stderr[-300:],))
            return None
        with open(out) as f:
            st_ = json.load(f)
    finally:
        shutil.rmtree(work, ignore_errors=True)
        try:
            os.rmdir(os.path.join(verif, "scratch"))
        except OSError:
            pass
    rec.evaluations += st_["execs"]
    rec.count("atheris:execs", st_["execs"])
    rec.count("atheris:corpus-" + corpus)
    for k in ("reject", "accept", "ambiguous"):
        rec.count("atheris:reference-" + k, st_[k])
    return st_


def judge_case(record):
    c = record["case"]
    if "ops" in c:
        from . import c17

        return c17.judge(c)["viol"]
    return judge(c)["viol"]


FIXED = [
    'def e { if a =< 1 { return "x" weighted 1 } else { return "y" weighted 1 } }',
    'def e { return "A" weighted .5 , "B" weighted 1 }',
    'def e { return "A" weighted 1 ; }',
    '@ def e { return "A" weighted 1 }',
    'junk def e { return "A" weighted 1 }',
    'def broken { return def e { return "A" weighted 1 }',
    'def e { return "A" weighted 1 } def f { return "B" weighted 1 }',
    'def e { return "A" weighted 1 } trailing',
    'def e { return "A" weighted 1 } }',
    'def e { if a = 1 { return "x" weighted 1 } }',
    'def e { if a == 1 { return "x" weighted 1 } else { return "y" weighted 1 } else { return "z" weighted 1 } }',
    '', ' ', '// only a comment', 'def', 'def e', 'def e {', 'def e { }',
    'def e { return "A" weighted 1 , }',
    'def e { splitters : a , if a == 1 { return "x" weighted 1 } }',
    'def e { salt : s return "x" weighted 1 }',
    'def e { return "A" weighted 1 "B" weighted 1 }',
    'def e { return "A" weighted -1 }',
    'def e { if a == { return "x" weighted 1 } }',
    'def e { if a == 1 and { return "x" weighted 1 } }',
    'def e { if ( a == 1 { return "x" weighted 1 } }',
    'def e { if a in ( 1 , 2 { return "x" weighted 1 } }',
    'def e { if a in ( ) { return "x" weighted 1 } }',
    'def e { return "A" weighted 1.  }',
    'def e { return "A weighted 1 }',
    "def e { return 'A\" weighted 1 }",
    'def e [ return "A" weighted 1 ]',
    'def e { return "A" weighted 1 } #',
    'def 1e { return "A" weighted 1 }',
    'def e { if a ! = 1 { return "x" weighted 1 } }',
    'def e { if a > = 1 { return "x" weighted 1 } }',
    'def e { if a === 1 { return "x" weighted 1 } }',
    'def e { if a == 1 { return "x" weighted 1 } else if { return "y" weighted 1 } }',
    'def e { return "x" weighted 1 } /',
    'def e \uff5b return "x" weighted 1 \uff5d', 'def e { if a \uff1d\uff1d 1 { return "x" weighted 1 } }', 'def e { if a \u2a75 1 { return "x" weighted 1 } }',
    'def e { if a \u33cc (1, 2) { return "x" weighted 1 } }', 'def e { return "x" weighted \u00b2 }', '\uff44\uff45\uff46 e { return "x" weighted 1 }',
    'def \uff45 { return "x" weighted 1 }', 'def e { return \u201cx\u201d weighted 1 }',
    '\ufeffdef e { return "x" weighted 1 }', 'def e { return "x" weighted 1 }\u200b',
    'def e { if a in ( 1 , 2 , ) { return "x" weighted 1 } }',
    'def e { if a in (1,) { return "x" weighted 1 } }',
    'def e { if a in ( , 1 ) { return "x" weighted 1 } }',
    'def e { if a in ( 1 , , 2 ) { return "x" weighted 1 } }',
    'def e { splitters : a , b , return "x" weighted 1 }',
    'def e { splitters : , a return "x" weighted 1 }',
    'def e { return "x" weighted 1 , , "y" weighted 1 }',
    'def e { return , "x" weighted 1 }',
    'def e { if a == 1 , { return "x" weighted 1 } }',
    'def e { if a == 18. { return "x" weighted 1 } }',
    'def e { return "x" weighted 1. }',
    'def e { return 7. weighted 1 }',
    'def e { return "x" weighted 1.5.2 }',
    'def e { return "x" weighted 1e3 }',
    'def e { return 1e3 weighted 1 }',
    'def e { return 0x10 weighted 1 }',
    'def e { return "x" weighted 1_000 }',
    'def e { if a == - - 1 { return "x" weighted 1 } }',
    'def e { if a == --1 { return "x" weighted 1 } }',
    'def e { return - - 1 weighted 1 }',
    'def e { return -"x" weighted 1 }',
    'def e { return "x" weighted - 1 }',
    'def e { if a == -b { return "x" weighted 1 } }',
    'def e { if a == -(1, 2) { return "x" weighted 1 } }',
    'def e { if not not { return "x" weighted 1 } }',
    'def e { if a in in (1) { return "x" weighted 1 } }',
    'def e { salt: "a" salt: "b" return "x" weighted 1 }',
    'def e { splitters: a splitters: b return "x" weighted 1 }',
    'def e { return "x" weighted 1 /* open }',
    'def e { return "x" /* open weighted 1 }',
    # the two-word tokens `else if` / `not in` are ONE token each (else\s*if, not\s+in): a comment between the words makes two
    # tokens of them, which no rule derives
    'def e { if a == 1 { return "x" weighted 1 } else /* c */ if a == 2 { return "y" weighted 1 } }',
    'def e { if a == 1 { return "x" weighted 1 } else // c\n if a == 2 { return "y" weighted 1 } }',
    'def e { if a == 1 { return "x" weighted 1 } else /**/if a == 2 { return "y" weighted 1 } }',
    'def e { if a not /* c */ in ( 1 , 2 ) { return "x" weighted 1 } }',
    'def e { if a not // c\n in ( 1 , 2 ) { return "x" weighted 1 } }',
    'def e { if a not/**/in ( 1 , 2 ) { return "x" weighted 1 } }',
    'def e { if a == 1 { return "x" weighted 1 } else else if a == 2 { return "y" weighted 1 } }',
    'def e { if a not not in ( 1 , 2 ) { return "x" weighted 1 } }',
    'def e { if a in not ( 1 , 2 ) { return "x" weighted 1 } }',
    # a first line in some other language's header / comment syntax (an interpreter line, a directive, a doc string)
    '#!/usr/bin/env pyab\ndef e { return "x" weighted 1 }', '#! def other { return "y" weighted 1 }\ndef e { return "x" weighted 1 }', '#!\ndef e { return "x" weighted 1 }',
    '# experiment\ndef e { return "x" weighted 1 }', '%YAML 1.2\ndef e { return "x" weighted 1 }', '<?xml version="1.0"?>\ndef e { return "x" weighted 1 }',
    '-- header\ndef e { return "x" weighted 1 }', ';; header\ndef e { return "x" weighted 1 }', '"""doc"""\ndef e { return "x" weighted 1 }', "'''\ndoc\n'''\ndef e { return 'x' weighted 1 }",
    '---\ndef e { return "x" weighted 1 }', 'def e { return "x" weighted 1 }\n__END__\njunk', 'def e { return "x" weighted 1 }\n#!eof',
    # a string literal ends on the line it starts on
    'def e { return "A\nB" weighted 1 }', "def e { salt: 'a\nb' return 1 weighted 1 }", 'def e { if a in ( "x\n" , "y" ) { return 1 weighted 1 } }', 'def e { return "A\r\nB" weighted 1 , "C" weighted 1 }',
    'def e { return "A weighted 1 ,\n "B" weighted 1 }',
    # a bare word / number sign where a quoted or numeric group is expected
    'def e { return control weighted 1 }', 'def e { return "a" weighted 1 , treatment weighted 1 }', 'def e { return + 1 weighted 1 }', 'def e { if a == + 1 { return 1 weighted 1 } }',
    'def e { return - - 5 weighted 1 }', 'def e { if a > - - 5.0 { return 1 weighted 1 } }', 'def e { if a == ---1 { return 1 weighted 1 } }',
    # two words of the language written as one (no rule makes a keyword of them)
    'def e { if a notin ( 1 , 2 ) { return "x" weighted 1 } }', 
    'def e { if a == 1 { return "x" weighted 1 } elseelse { return "y" weighted 1 } }', 'def e { returnreturn "x" weighted 1 }',
    'def e { return "x" weightedweighted 1 }', 'defdef e { return "x" weighted 1 }', 'def e { if a isnot 1 { return "x" weighted 1 } }', 'def e { if a not_in ( 1 ) { return "x" weighted 1 } }',
    'def e { if a NOTIN ( 1 ) { return "x" weighted 1 } }', 'def e { if a not-in ( 1 ) { return "x" weighted 1 } }',
    # a chain that goes on after its else
    'def e { if a == 1 { return "x" weighted 1 } else { return "y" weighted 1 } else if a == 2 { return "z" weighted 1 } }',
    'def e { if a == 1 { return "x" weighted 1 } else if a == 3 { return "w" weighted 1 } else { return "y" weighted 1 } else { return "z" weighted 1 } }',
]


SWEEP_BASES = ['def e { salt: "s" splitters: u, v if t >= -1 and not ( u in ( 1 , "x" ) ) { return "A" weighted 1 , "B" weighted 2.5 } else if v != 3 { return 7 weighted 1 } else { return -1.5 weighted 1 } }',
               'def two_t { return "tt" weighted 10 }']
SWEEP_CHARS = [chr(c) for c in range(0, 128)] + ["\x85", "\xa0", "\xad", "\u200b", "\u2028", "\ufeff", "\xb7", "\u037e", "\uff1a", "\U0001f600",
                                                     # lone surrogates (text read with errors="surrogateescape"): no token of the language contains one
                                                     "\udcff", "\ud800", "\udc80\udc81"]


def stray_char_sweep():
    """every character of ASCII (and a few beyond) dropped between two tokens (spaced) and glued to the front / back of a
    token, at every token boundary of two base texts: the reference decides which results are outside the grammar"""
    for base in SWEEP_BASES:
        toks = [t for _, t in refgrammar.lex(base)]
        for c in SWEEP_CHARS:
            for i in range(len(toks) + 1):
                for how in ("spaced", "glue-front", "glue-back"):
                    if how == "spaced":
                        tt = toks[:i] + [c] + toks[i:]
                    elif how == "glue-front" and i < len(toks):
                        tt = toks[:i] + [c + toks[i]] + toks[i + 1:]
                    elif how == "glue-back" and i < len(toks):
                        tt = toks[:i] + [toks[i] + c] + toks[i + 1:]
                    else:
                        continue
                    yield {"text": " ".join(tt), "kinds": ["stray-char:" + how], "level": "stray-char", "base": base if how == "spaced" and i % 7 == 0 else None}


SWEEP_TOKENS = ['""', "''", '"7"', "'0.5'", '"1e3"', '"x"', "0", "7", "00", "0.0", "0.5", "-", "- 0", "-0", "-0.0", "- 1", "x", "_", "in", "not", "not in", "and", "or", ",",
                ":", "(", ")", "( )", "( 1 )", "( x )", "{", "}", "{ }", "==", "!=", "<", ">=", "weighted", "weighted 1", "return", "else", "else if", "if", "def",
                "salt", "splitters", "/**/", "/* */", "//", "// x\n", ";", ".", "..", "\\", "\n", "\t", "\x00",
                # an operator with its operand (chained comparisons are not in the grammar), a second clause
                "&&", "||", "&", "|", "!", "<>", "=>", "=<", "->", ":=", "++", "**", "<<", "~", "^", "?", "===", "!==", "=", "&& x == 1", "|| x == 1", "xor", "AND", "OR", "NOT",
                "< 65", "== 18", '!= "FR"', "in ( 1 )", ">= x", "not in ( 1 , 2 )", "and", "or x", ", 1", ': "s"', 'weighted 1 , "Z"']


def stray_token_sweep():
    """a small token (or a pair) inserted at, or substituted for, every token position of the base texts: an empty string
    literal as junk, a string where a number belongs, a sign in front of a zero, a comment opener ... the reference decides
    which results are outside the grammar"""
    for base in SWEEP_BASES:
        toks = [t for _, t in refgrammar.lex(base)]
        for s_ in SWEEP_TOKENS:
            for i in range(len(toks) + 1):
                yield {"text": " ".join(toks[:i] + [s_] + toks[i:]), "kinds": ["stray-token:insert"], "level": "stray-token", "base": base if i % 9 == 0 else None}
                if i < len(toks):
                    yield {"text": " ".join(toks[:i] + [s_] + toks[i + 1:]), "kinds": ["stray-token:replace"], "level": "stray-token", "base": None}


def keyword_case_sweep():
    """keywords are case-sensitive: DEF, Salt, If, IN, Not In, RETURN, Weighted ... (and letters that only case-fold to a keyword's:
    long s, dotless i, Kelvin sign) are identifiers or illegal characters, wherever they stand"""
    fold = {"s": "\u017f", "i": "\u0131", "k": "\u212a"}
    for base in SWEEP_BASES:
        toks = refgrammar.lex(base)
        for i, (ty, tx) in enumerate(toks):
            if ty in ("ID", "STRING", "INT", "FLOAT") or not tx[0].isalpha():
                continue
            variants = {tx.upper(), tx.capitalize(), tx.title(), tx.swapcase(), tx[0] + tx[1:].upper(), tx[:-1] + tx[-1].upper()}
            for ch, rep in fold.items():
                if ch in tx:
                    variants.add(tx.replace(ch, rep, 1))
            for v in sorted(variants - {tx}):
                yield {"text": " ".join([t for _, t in toks[:i]] + [v] + [t for _, t in toks[i + 1:]]), "kinds": ["keyword-case"], "level": "keyword-case", "base": None}


def selftest():
    refgrammar.selftest()
    for t in FIXED:
        assert refgrammar.classify(t) == "reject", t


def run(ctx, rec):
    if ctx.shard == 0:
        runner.direct_run(ctx, rec, "fixed-invalid-texts", [{"text": t, "kinds": ["fixed"], "level": "fixed"} for t in FIXED], judge)
        if rec.violations:
            return
        runner.direct_run(ctx, rec, "stray-character-sweep", stray_char_sweep(), judge)
        if rec.violations:
            return
        runner.direct_run(ctx, rec, "stray-token-sweep", stray_token_sweep(), judge)
        if rec.violations:
            return
        runner.direct_run(ctx, rec, "keyword-case-sweep", keyword_case_sweep(), judge)
        if rec.violations:
            return
    runner.hyp_run(ctx, rec, "token-mutations", token_cases(), judge, ctx.n(1000, 8000))
    if rec.violations:
        return
    runner.hyp_run(ctx, rec, "char-mutations", char_cases(_repo_programs()), judge, ctx.n(1000, 8000))
    if rec.violations:
        return
    if ctx.shard == 0:
        # the same invalid text handed to one live evaluator by two threads at once (owned schedule, single-preemption sweep
        # over the last lines of the first thread): BOTH must be refused
        from . import c17

        def sweep():
            for old, t in ((0, 0), (1, 2)):
                base = {"shared": [old], "ops": [{"k": "recompile_invalid", "ev": 0, "text": t}] * 2, "cycle": False}
                total = c17._lines_alone(dict(base, schedule=[]))
                for L in sorted(set(range(1, total + 1, max(1, total // 150))) | set(range(max(1, total - 40), total + 1))):
                    yield dict(base, schedule=[[0, L], [1, 10 ** 9], [0, 10 ** 9]], sweep=True)

        runner.direct_run(ctx, rec, "two-threads-same-invalid-text", sweep(), c17.judge)
    if rec.violations or ctx.quick:
        return
    st_ = run_atheris(ctx, rec, 30000)
    if st_:
        rec.nontrivial.update(st_["digests"])
        for t in st_["samples"][:1]:
            rec.samples.append({"atheris_rejected_text": t})
        if st_["violation"] is not None:
            rec.violation("atheris", {"text": st_["violation"], "kinds": ["atheris"], "level": "atheris"},
                          ["text outside the grammar was compiled into an evaluator | %r" % (st_["violation"],)])
