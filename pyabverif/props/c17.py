"""C17 - concurrent compilation and evaluation are thread-safe."""
import sys
import threading

from hypothesis import strategies as st

from .. import runner, sched, sut

ID = "C17"
RULE = ("2-8 operations, one per thread, drawn from {construct an evaluator from a source (block comments, 40-branch else-if "
        "chain, 48 groups, nested conditionals), call a shared evaluator, recompile a shared evaluator old->new while others "
        "call it} and executed under a HARNESS-OWNED schedule: a generated list of (thread, run length in traced lines 1-300) "
        "hand-offs (cycled until the run ends; run lengths up to 5000) enforced through sys.settrace, so an execution is a pure function of (operations, schedule) and shrinks / "
        "replays exactly; plus single-preemption sweeps (operation A is pre-empted once after L traced lines, B runs to completion, A finishes) for every L in the last 260 / first 24 lines of A (quick) or all lines (thorough) over construct||construct, recompile||call and call||recompile pairs, and double sweeps (L, M) over two concurrent calls on evaluators with different weights; and cold starts: fresh interpreters (6 per case) in which the first two constructions of the process overlap, the first thread pre-empted after a generated number of lines, with no warm-up of any kind. Thorough tier adds real pre-emptive threads (2-16, switch interval 1 microsecond). Oracle: every "
        "constructed evaluator behaves on a probe set like the one built alone; every call equals the sequential result; a "
        "call racing a recompile gives old(x) or new(x), never an exception; after the run a recompiled evaluator equals a "
        "fresh one of the new text. Non-trivial = schedule with >=1 hand-off while >=2 threads were mid-operation and at least "
        "one source with a block comment; distinct by (operations, schedule).")
RULE += (' Since round 6: a construction storm (24 real threads constructing from 20-100 kB sources at once).')
RULE += (' Since rounds 14-15: coverage-directed pre-emption points (first / last execution of every distinct library line) and double pre-emption of two constructions.')
ASSUMPTIONS = [
    "the owned schedule switches at line granularity inside pyab_experiment and generated code; switches between two "
    "bytecodes of one line and inside C extensions (re, hashlib, pydantic) are only reachable by the probabilistic pre-emptive tier",
    "several threads may recompile one shared evaluator only to the SAME new text (two different concurrent writers are outside the property's statement)",
    "a schedule that cannot make progress within 30 s (a lock held by a descheduled thread) is reported as inconclusive, never as a violation",
]
SHARDS = {"quick": 1, "thorough": 16}


def _chain(n):
    parts = ["if route == 0 { return \"c0\" weighted 1, \"d0\" weighted 2 }"]
    for i in range(1, n):
        parts.append("else if route == %d { return \"c%d\" weighted 1, \"d%d\" weighted %d }" % (i, i, i, i + 1))
    parts.append("else { return \"cz\" weighted 1 }")
    return " ".join(parts)


SOURCES = [
    '/* header block comment */ def exp { splitters: uid /* a */ /* b */ return "A" weighted 1, /* mid */ "B" weighted 1 }',
    'def exp { salt: "s" splitters: uid\n // line comment\n if plan == "pro" /* why */ { return "P1" weighted 1, "P2" weighted 3 } else { return "F" weighted 1 } }',
    "def chain { splitters: uid /* long parse */ " + _chain(40) + " }",
    "def many /* 48 groups */ { splitters: uid return " + ", ".join('"g%d" weighted %d' % (i, i % 5 + 1) for i in range(48)) + " }",
    'def nested { splitters: uid if route >= 3 { if plan in ("pro", "max") { return "n1" weighted 1, "n2" weighted 1 } else if not route == 5 { return "n3" weighted 2, "n4" weighted 1 } } else { return /* c */ "n5" weighted 1, "n6" weighted 1 } }',
    '/* multi\n line\n comment */ def exp { splitters: uid return "X" weighted 9, "Y" weighted 1 } // trailing',
]
# two revisions that read the SAME fields in swapped roles (the order of the generated parameters differs), and an experiment
# whose only boundary lies exactly on the position of unit "u0" with a total of 2^96 (exact in doubles: "u0" belongs to "B")
SOURCES.append('def swap { splitters: uid if plan == "pro" { return "a1" weighted 1, "a2" weighted 1 } else { return "a3" weighted 1, "a4" weighted 2 } }')
SOURCES.append('def swap { splitters: plan if uid == "u1" { return "b1" weighted 1 } else { return "b2" weighted 1, "b3" weighted 1 } }')


def _edge_source():
    from .. import refbucket

    k = refbucket.published_position(None, {"uid": "u0"})
    return 'def edge { splitters: uid return "A" weighted %d, "B" weighted %d }' % (k << 64, ((1 << 32) - k) << 64)


SOURCES.append(_edge_source())
INVALID = ['def exp { splitters: uid if plan = "pro" { return "A" weighted 1 } else { return "B" weighted 1 } }',
           "def chain { splitters: uid /* long parse */ " + _chain(40) + " , }",
           'def exp { splitters: uid return "A" weighted 1, "B" weighted 1 } def again { return "x" weighted 1 }']
THREAD_NOISE = ['def n { splitters: uid return "a" weighted 1 } /* never closed', "def n { /* open", "@@@ not an experiment",
                'def n { splitters: uid return "old_a" weighted 5, "old_b" weighted }', 'def n { splitters: uid return "a" weighted 1 ;']
PROBES = [{"uid": "u%d" % i, "plan": p, "route": r} for i, (p, r) in enumerate([("pro", 0), ("free", 1), ("max", 3), ("free", 5),
                                                                               ("pro", 7), ("x", 39), ("pro", 40), ("free", 2)])]
_SEQ = {}


def _seq(si):
    """probe outcomes of the evaluator built alone, sequentially"""
    if si not in _SEQ:
        res = sut.compile_text(SOURCES[si])
        if res[0] != "ok":
            raise RuntimeError("source %d does not compile: %r" % (si, res))
        _SEQ[si] = [sut.call(res[1], p) for p in PROBES]
    return _SEQ[si]


@st.composite
def cases(draw, max_threads=8):
    nshared = draw(st.integers(1, 2))
    shared = [draw(st.integers(0, len(SOURCES) - 1)) for _ in range(nshared)]
    n = draw(st.integers(2, max_threads))
    ops = []
    recompiled = {}
    for _ in range(n):
        k = draw(st.sampled_from(["construct", "construct", "call", "call", "recompile", "recompile_invalid"]))
        if k == "recompile_invalid":
            # several threads may hand the SAME invalid text to one evaluator: every one of them must be refused
            ops.append({"k": "recompile_invalid", "ev": draw(st.integers(0, nshared - 1)), "text": draw(st.integers(0, len(INVALID) - 1))})
            continue
        if k == "construct":
            ops.append({"k": "construct", "src": draw(st.integers(0, len(SOURCES) - 1))})
            if draw(st.integers(0, 2)) == 0:
                ops[-1]["after"] = draw(st.integers(0, len(THREAD_NOISE) - 1))
        elif k == "call":
            ops.append({"k": "call", "ev": draw(st.integers(0, nshared - 1)), "probe": draw(st.integers(0, len(PROBES) - 1)),
                        "times": draw(st.integers(1, 3))})
        else:
            e = draw(st.integers(0, nshared - 1))
            # several threads may recompile the same evaluator, but all to the SAME new text (two different writers are
            # outside the property); each then calls the evaluator: after its own recompile returned it must see the new text
            if e not in recompiled:
                recompiled[e] = draw(st.integers(0, len(SOURCES) - 1))
            ops.append({"k": "recompile", "ev": e, "src": recompiled[e], "probe": draw(st.integers(0, len(PROBES) - 1))})
    sched_ = draw(st.lists(st.tuples(st.integers(0, 15), st.one_of(st.integers(1, 12), st.integers(1, 300), st.integers(300, 5000))), min_size=4, max_size=200))
    return {"shared": shared, "ops": ops, "schedule": [list(s) for s in sched_]}


def _build_ops(case, shared_evs, E):
    fns = []
    for op in case["ops"]:
        if op["k"] == "construct":
            def c(op=op):
                if "after" in op:
                    # the same (pool) thread compiled somebody's odd text just before: whatever that left behind belongs to
                    # nobody, in particular not to this thread's next compile
                    try:
                        E(THREAD_NOISE[op["after"] % len(THREAD_NOISE)])
                    except Exception:
                        pass
                return E(SOURCES[op["src"]])
            fns.append(c)
        elif op["k"] == "recompile_invalid":
            def h(op=op):
                try:
                    shared_evs[op["ev"]].recompile(INVALID[op["text"]])
                except Exception as e:
                    return ("refused", type(e).__name__)
                return ("accepted",)
            fns.append(h)
        elif op["k"] == "call":
            def f(op=op):
                return [sut.call(shared_evs[op["ev"]], PROBES[op["probe"]]) for _ in range(op["times"])]
            fns.append(f)
        else:
            def g(op=op):
                shared_evs[op["ev"]].recompile(SOURCES[op["src"]])
                return [sut.call(shared_evs[op["ev"]], PROBES[op.get("probe", 0)])]
            fns.append(g)
    return fns


def _judge_results(case, results, shared_evs, how):
    viol = []
    targets = {}
    for op in case["ops"]:
        if op["k"] == "recompile":
            targets[op["ev"]] = op["src"]
    for i, (op, r) in enumerate(zip(case["ops"], results)):
        if r is None:
            viol.append("%s: thread %d produced no result" % (how, i))
            continue
        if r[0] == "exc":
            viol.append("%s: thread %d (%r) raised %s: %s" % (how, i, op, r[1], r[2]))
            continue
        if op["k"] == "recompile_invalid":
            if r[1][0] != "refused":
                viol.append("%s: thread %d handed the invalid text %r to recompile() of shared evaluator %d and it returned without "
                            "raising" % (how, i, INVALID[op["text"]][:70], op["ev"]))
        elif op["k"] == "construct":
            got = [sut.call(r[1], p) for p in PROBES]
            if got != _seq(op["src"]):
                j = next(j for j in range(len(PROBES)) if got[j] != _seq(op["src"])[j])
                viol.append("%s: evaluator constructed in thread %d from source %d differs from the one built alone: probe %r gives %r, "
                            "alone %r" % (how, i, op["src"], PROBES[j], got[j], _seq(op["src"])[j]))
        elif op["k"] == "recompile":
            want = _seq(op["src"])[op.get("probe", 0)]
            others = [_seq(o["src"])[op.get("probe", 0)] for o in case["ops"] if o["k"] == "recompile" and o["ev"] == op["ev"] and o is not op]
            for got in r[1]:
                if got != want and got not in others:
                    viol.append("%s: thread %d recompiled shared evaluator %d to source %d and then called it: got %r, the new text "
                                "gives %r (a call made after one's own recompile returned must see the new experiment)"
                                % (how, i, op["ev"], op["src"], got, want))
        elif op["k"] == "call":
            allowed_src = {case["shared"][op["ev"]]} | ({targets[op["ev"]]} if op["ev"] in targets else set())
            allowed = [_seq(s)[op["probe"]] for s in allowed_src]
            for got in r[1]:
                if got not in allowed:
                    viol.append("%s: call in thread %d on shared evaluator %d gave %r; sequentially (old or new text) %r"
                                % (how, i, op["ev"], got, allowed))
    all_targets = {}
    for op in case["ops"]:
        if op["k"] == "recompile":
            all_targets.setdefault(op["ev"], []).append(op["src"])
    order = list(enumerate(shared_evs))
    for e, ev in order[::-1] + order:
        # (several threads may have deployed different texts to one evaluator: whichever came last is its text)
        wants = [_seq(s) for s in all_targets.get(e, [case["shared"][e]])]
        got = [sut.call(ev, p) for p in PROBES]
        if got not in wants:
            viol.append("%s: after the run shared evaluator %d does not behave like a fresh evaluator of its last text" % (how, e))
            break
    if not viol:
        # ... and the next deploys, made by one thread after everything has settled, take effect like any other (checked where
        # several threads deployed different texts to one evaluator, and on every tenth pre-emption point otherwise)
        sampled = bool(case.get("sweep")) and case["schedule"] and case["schedule"][0][1] % 25 == 0
        for e, ev in order:
            ts = sorted(set(all_targets.get(e, [])))
            if not (len(ts) >= 2 or (ts and sampled)):
                continue
            got = [sut.call(ev, p) for p in PROBES]
            cur = next((t for t in ts if _seq(t) == got), None)
            for s in [t for t in ts if t != cur] + [t for t in ts if t == cur] + [case["shared"][e]]:
                try:
                    ev.recompile(SOURCES[s])
                    got = [sut.call(ev, p) for p in PROBES]
                except Exception as ex:
                    got = "%s: %s" % (type(ex).__name__, ex)
                if got != _seq(s):
                    viol.append("%s: after the run, a sequential recompile() of shared evaluator %d to source %d does not take effect (the evaluator "
                                "does not behave like a fresh evaluator of that text: function and change-detection state no longer belong together)" % (how, e, s))
                    break
            if viol:
                break
    return viol


def _conflicting(case):
    seen = {}
    for op in case.get("ops", []):
        if op.get("k") == "recompile":
            seen.setdefault(op["ev"], set()).add(op["src"])
    return any(len(v) >= 2 for v in seen.values())


def known_filter(case, viol):
    """K2 (known finding): conflicting concurrent deploys to one evaluator can leave function and checksum of different texts"""
    if not any(k.get("id") == "K2" for k in runner.known_for("C17")):
        return None
    if isinstance(case, dict) and _conflicting(case) and viol and all("does not take effect" in m for m in viol):
        return "K2"
    return None


def k2_probe(ctx, rec):
    """the listed reproduction of K2, run on its own: printed as KNOWN-FINDING while it still fails"""
    if not any(k.get("id") == "K2" for k in runner.known_for("C17")):
        return
    a, b = {"k": "recompile", "ev": 0, "src": 2, "probe": 1}, {"k": "recompile", "ev": 0, "src": 1, "probe": 4}
    base = {"shared": [0], "ops": [a, b], "cycle": False}
    total, log = _lines_alone(dict(base, schedule=[]), want_log=True)
    last = {}
    for i, k in enumerate(log):
        last[k] = i + 1
    for L in sorted(last.values())[-40:]:
        v = judge(dict(base, schedule=[[0, L], [1, 10 ** 9], [0, 10 ** 9]], sweep=True))
        rec.count("k2_probe")
        if v["viol"] and known_filter(base, v["viol"]):
            rec.known_finding("K2", "two threads recompiling one evaluator to different texts can leave the function of one text with the checksum of the "
                              "other: a later sequential recompile() to that text is skipped (still failing: thread 0 pre-empted after %d lines)" % L)
            return
        if v["viol"]:
            rec.violation("k2-probe", dict(base, schedule=[[0, L], [1, 10 ** 9], [0, 10 ** 9]]), v["viol"])
            return


def judge(case):
    E = sut.evaluator_mod().ExperimentEvaluator
    for si in range(len(SOURCES)):
        _seq(si)  # warm-up: imports, regex caches, sequential references
    try:
        shared_evs = [E(SOURCES[s]) for s in case["shared"]]
    except Exception as e:
        # nothing concurrent is going on here: an earlier concurrent run must have left broken state behind
        from .. import common

        common.reset_after_violation()
        return {"viol": ["constructing an evaluator sequentially raised %s: %s (state left behind by an earlier concurrent run in this "
                         "process)" % (type(e).__name__, e)], "tags": ["sequential-construction-failed"]}
    fns = _build_ops(case, shared_evs, E)
    s = sched.Scheduler(fns, [tuple(x) for x in case["schedule"]], cycle=case.get("cycle", True))
    from .. import common as _common

    state0 = _common.global_state()
    try:
        results = s.run()
    except sched.Stuck as e:
        return {"viol": [], "nontrivial": False, "tags": ["inconclusive:stuck"], "skipped": "stuck-schedule"}
    try:
        viol = _judge_results(case, results, shared_evs, "owned schedule")
    except Exception as e:
        viol = ["probing the evaluators after the run raised %s: %s" % (type(e).__name__, e)]
    # whatever the threads did, they leave the interpreter as they found it (warning filters, limits, logging, open files ...)
    changed = [c for c in _common.state_diff(state0, _common.global_state()) if not c.startswith("non-daemon threads")]
    if changed and not viol:
        viol = ["owned schedule: the concurrent run changed interpreter-wide state: %s" % "; ".join(changed)]
        _common.restore_state(state0)
        import warnings

        warnings.resetwarnings()
    if viol:
        from .. import common

        common.reset_after_violation()
    srcs = {op.get("src") for op in case["ops"] if "src" in op} | set(case["shared"])
    has_comment = any("/*" in SOURCES[i] for i in srcs if i is not None)
    nt = s.overlap_handoffs >= 1 and has_comment
    tags = ["threads:%d" % len(case["ops"])] + sorted({"op:" + op["k"] for op in case["ops"]})
    if s.overlap_handoffs:
        tags.append("overlapping-handoffs")
    return {"viol": viol[:4], "nontrivial": nt, "tags": tags, "key": [case["shared"], case["ops"], case["schedule"]],
            "sample": {"shared": case["shared"], "ops": case["ops"], "schedule_head": case["schedule"][:10],
                       "handoffs": s.handoffs, "handoffs_with_>=2_threads_mid_operation": s.overlap_handoffs,
                       "traced_lines_per_thread": s.lines}}


# --------------------------------------------------------------------------- single-preemption sweeps
def _lines_alone(case, want_log=False):
    """traced line count of operation 0 of `case` when it runs alone"""
    E = sut.evaluator_mod().ExperimentEvaluator
    shared_evs = [E(SOURCES[s]) for s in case["shared"]]
    fns = _build_ops(case, shared_evs, E)
    s = sched.Scheduler(fns[:1], [(0, 10 ** 9)], cycle=False)
    if want_log:
        s.log = []
    s.run()
    return (s.lines[0], s.log) if want_log else s.lines[0]


def sweep_pairs(ctx):
    """(shared, opA, opB): A is pre-empted once after L lines, B then runs to completion, then A finishes"""
    pairs = []
    # two constructions (shared lexer / parser / code generator state)
    for a, b in [(0, 1), (1, 0), (5, 4), (4, 3), (0, 0), (3, 1), (1, 5), (2, 0)]:
        pairs.append(([0], {"k": "construct", "src": a}, {"k": "construct", "src": b}))
    # a recompile that is pre-empted by a call on the same evaluator (publication window), names differ / agree
    for old, new in [(0, 2), (1, 4), (0, 5), (3, 1), (4, 0)]:
        pairs.append(([old], {"k": "recompile", "ev": 0, "src": new}, {"k": "call", "ev": 0, "probe": 2, "times": 1}))
    # a call pre-empted by a whole recompile
    for old, new in [(0, 2), (4, 1), (2, 0)]:
        pairs.append(([old], {"k": "call", "ev": 0, "probe": 3, "times": 2}, {"k": "recompile", "ev": 0, "src": new}))
    # two threads recompile the same evaluator to the same new text, each then calls it
    for old, new in [(0, 2), (1, 4), (5, 0)]:
        pairs.append(([old], {"k": "recompile", "ev": 0, "src": new, "probe": 1}, {"k": "recompile", "ev": 0, "src": new, "probe": 4}))
    # two threads deploy DIFFERENT texts to the same evaluator (two config pushes racing): one of them wins, and later deploys work
    for old, n1, n2 in [(0, 2, 1), (1, 4, 0), (5, 0, 3)]:
        pairs.append(([old], {"k": "recompile", "ev": 0, "src": n1, "probe": 1, "race": True}, {"k": "recompile", "ev": 0, "src": n2, "probe": 4, "race": True}))
    # two threads hand the same invalid text to the same evaluator
    for old, t in [(0, 0), (2, 1), (1, 2)]:
        pairs.append(([old], {"k": "recompile_invalid", "ev": 0, "text": t}, {"k": "recompile_invalid", "ev": 0, "text": t}))
    # revisions that read the same fields in swapped roles, racing with calls; a call on the exact-boundary experiment in a thread
    pairs.append(([6], {"k": "recompile", "ev": 0, "src": 7}, {"k": "call", "ev": 0, "probe": 1, "times": 2}))
    pairs.append(([7], {"k": "call", "ev": 0, "probe": 0, "times": 2}, {"k": "recompile", "ev": 0, "src": 6}))
    pairs.append(([8], {"k": "call", "ev": 0, "probe": 0, "times": 1}, {"k": "construct", "src": 8}))
    # a recompile pre-empted by an unrelated construction, and vice versa
    pairs.append(([0], {"k": "recompile", "ev": 0, "src": 1}, {"k": "construct", "src": 4}))
    pairs.append(([1], {"k": "construct", "src": 0}, {"k": "recompile", "ev": 0, "src": 5}))
    return [p for i, p in enumerate(pairs) if i % ctx.nshards == ctx.shard % max(1, min(ctx.nshards, len(pairs)))] if ctx.nshards > 1 else pairs


def call_call_cases(ctx):
    """two concurrent calls on evaluators with different weights: A is pre-empted after L lines, B runs its first call
    (M lines) and is pre-empted between / inside its calls, A finishes, B finishes - sweeping L and M"""
    combos = [([0, 3], 0, 1), ([1, 2], 0, 5), ([4, 0], 2, 1), ([3, 3], 1, 4), ([1, 1], 0, 1)]
    if ctx.nshards > 1:
        combos = [c for i, c in enumerate(combos) if i % ctx.nshards == ctx.shard % len(combos)] or combos[:1]
    elif ctx.quick:
        combos = combos[:3]
    for shared, pa, pb in combos:
        a = {"k": "call", "ev": 0, "probe": pa, "times": 1}
        b = {"k": "call", "ev": 1, "probe": pb, "times": 2}
        ta = _lines_alone({"shared": shared, "ops": [a], "schedule": []})
        tb1 = _lines_alone({"shared": shared[::-1], "ops": [dict(b, ev=0, times=1)], "schedule": []})
        tb = _lines_alone({"shared": shared[::-1], "ops": [dict(b, ev=0)], "schedule": []})
        ms = sorted(set(range(max(1, tb1 - 3), tb1 + 4))) if ctx.quick else list(range(1, tb + 1))
        for L in range(1, ta + 1):
            for m in ms:
                yield {"shared": shared, "ops": [a, b], "cycle": False, "sweep": True,
                       "schedule": [[0, L], [1, m], [0, 10 ** 9], [1, 10 ** 9]]}


def construct_double_cases(ctx):
    """two constructions: B starts and is pre-empted after m lines (early / half-way), A then runs up to a coverage-directed
    point (after the first / last execution of each of its distinct library lines), B finishes, A finishes.  Whatever A leaves
    set while it is suspended is seen by the END of an operation that STARTED before - which no single pre-emption shows"""
    combos = [(5, 4), (0, 1)] if ctx.quick else [(5, 4), (0, 1), (1, 5), (3, 0), (2, 5), (5, 5), (8, 0)]
    if ctx.nshards > 1:
        combos = [c for i, c in enumerate(combos) if i % ctx.nshards == ctx.shard % len(combos)] or combos[:1]
    for a, b in combos:
        opa, opb = {"k": "construct", "src": a}, {"k": "construct", "src": b}
        _, log = _lines_alone({"shared": [0], "ops": [opa], "schedule": []}, want_log=True)
        tb = _lines_alone({"shared": [0], "ops": [opb], "schedule": []})
        first, last = {}, {}
        for i, k in enumerate(log):
            first.setdefault(k, i + 1)
            last[k] = i + 1
        ms = [40, tb // 2] if ctx.quick else [5, 15, 40, 100, tb // 4, tb // 2, 3 * tb // 4, tb - 40]
        for m in ms:
            for L in sorted(set(first.values()) | set(last.values())):
                yield {"shared": [0], "ops": [opa, opb], "cycle": False, "sweep": True, "schedule": [[1, max(1, m)], [0, L], [1, 10 ** 9], [0, 10 ** 9]]}


def sweep_cases(ctx):
    pairs = sweep_pairs(ctx)
    if ctx.quick:
        pairs = [pairs[i] for i in (0, 4, 8, 11, 13, 16, 22, 25, 27, 29) if i < len(pairs)]  # (conflicting deploys: see k2_probe; all pairs in the thorough tier)
    for shared, a, b in pairs:
        base = {"shared": shared, "ops": [a, b], "cycle": False}
        total, log = _lines_alone(dict(base, schedule=[]), want_log=True)
        # coverage-directed points: right after the FIRST and the LAST execution of every distinct library line of operation A
        # (every statement that touches shared state is pre-empted at least once, wherever in the run it sits)
        first, last = {}, {}
        for i, k in enumerate(log):
            first.setdefault(k, i + 1)
            last[k] = i + 1
        directed = set(first.values()) | set(last.values())
        if ctx.quick:
            points = sorted(set(range(max(1, total - 80), total + 1)) | set(range(1, 25)) | directed)
        else:
            step = max(1, total // 6000)
            points = sorted(set(range(1, total + 1, step)) | set(range(max(1, total - 1500), total + 1)) | directed)
        for L in points:
            yield dict(base, schedule=[[0, L], [1, 10 ** 9], [0, 10 ** 9]], sweep=True)


# --------------------------------------------------------------------------- pre-emptive tier (thorough)
def judge_preemptive(case):
    E = sut.evaluator_mod().ExperimentEvaluator
    for si in range(len(SOURCES)):
        _seq(si)
    viol = []
    old = sys.getswitchinterval()
    sys.setswitchinterval(1e-6)
    try:
        for rnd in range(case["rounds"]):
            shared_evs = [E(SOURCES[s]) for s in case["shared"]]
            fns = _build_ops(case, shared_evs, E)
            results = [None] * len(fns)
            barrier = threading.Barrier(len(fns))

            def work(i):
                try:
                    barrier.wait(timeout=30)
                    results[i] = ("ok", fns[i]())
                except BaseException as e:
                    results[i] = ("exc", type(e).__name__, str(e)[:300])

            ts = [threading.Thread(target=work, args=(i,), daemon=True) for i in range(len(fns))]
            for t in ts:
                t.start()
            for t in ts:
                t.join(timeout=60)
            viol = _judge_results(case, results, shared_evs, "pre-emptive round %d (schedule not pinned)" % rnd)
            if viol:
                break
    finally:
        sys.setswitchinterval(old)
    return {"viol": viol[:4], "nontrivial": True, "tags": ["pre-emptive", "threads:%d" % len(case["ops"])],
            "key": ["pre", case["shared"], case["ops"]], "sample": {"pre-emptive": True, "ops": case["ops"], "rounds": case["rounds"]}}


# --------------------------------------------------------------------------- construction storm (real threads, long parses)
def _storm_text(k):
    if k % 3 == 0:
        return "def chain%d { splitters: uid /* long parse */ %s }" % (k, _chain(300 + 10 * k))
    if k % 3 == 1:
        return "def many%d { salt: \"s%d\" splitters: uid return %s }" % (k, k, ", ".join('"g%d" weighted %d' % (i, i % 5 + 1) for i in range(5000 + 200 * k)))
    return "/* %s */ def chain%d { splitters: uid %s } // %s" % ("long comment * / " * 3000, k, _chain(280 + 10 * k), "trailing " * 2000)


def judge_storm(case):
    """many threads construct evaluators from LONG sources at the same moment (every parse overlaps with all the others for
    its whole duration, real pre-emptive threads): every construction must succeed and equal the one made alone"""
    E = sut.evaluator_mod().ExperimentEvaluator
    texts = [_storm_text(k) for k in case["texts"]]
    probes = [{"uid": "u%d" % i, "route": r} for i, r in enumerate([0, 1, 7, 449, 10 ** 6, 3, 200, 5])]
    alone = {}
    for t in set(texts):
        ev0 = E(t)
        alone[t] = [sut.call(ev0, p) for p in probes]
    viol = []
    old = sys.getswitchinterval()
    sys.setswitchinterval(case["interval"])
    try:
        for rnd in range(case["rounds"]):
            results = [None] * len(texts)
            barrier = threading.Barrier(len(texts))

            def work(i):
                try:
                    barrier.wait(timeout=60)
                    ev = E(texts[i])
                    results[i] = ("ok", [sut.call(ev, p) for p in probes])
                except BaseException as e:
                    results[i] = ("exc", type(e).__name__, str(e)[:200])

            ts = [threading.Thread(target=work, args=(i,), daemon=True) for i in range(len(texts))]
            for t in ts:
                t.start()
            for t in ts:
                t.join(timeout=600)
            for i, r in enumerate(results):
                if r is None:
                    raise runner.HarnessError("storm thread %d did not finish within 600 s" % i)
                if r[0] != "ok":
                    viol.append("construction storm (%d threads, round %d): thread %d constructing a %d-character source raised %s: %s; alone "
                                "the same source compiles" % (len(texts), rnd, i, len(texts[i]), r[1], r[2]))
                elif r[1] != alone[texts[i]]:
                    viol.append("construction storm (%d threads, round %d): the evaluator built by thread %d differs from the one built alone"
                                % (len(texts), rnd, i))
            if viol:
                break
    finally:
        sys.setswitchinterval(old)
    return {"viol": viol[:3], "nontrivial": True, "tags": ["construction-storm", "threads:%d" % len(texts)],
            "key": ["storm", case["texts"], case["interval"]], "sample": {"storm_threads": len(texts), "source_lengths": [len(t) for t in texts][:4]}}


# --------------------------------------------------------------------------- cold start (fresh interpreter per case)
def judge_cold(case):
    """the first compilations of a process overlap: nothing was parsed, compiled or evaluated before the threads start"""
    import json
    import os
    import subprocess

    verif = os.path.dirname(os.path.dirname(os.path.dirname(os.path.abspath(__file__))))
    env = dict(os.environ, PYTHONPATH=os.pathsep.join([os.environ.get("PYAB_SRC", "/repo/src"), verif]), PYTHONDONTWRITEBYTECODE="1")
    procs = []
    for L in case["preempt_after"]:
        spec = {"srcs": case["srcs"], "schedule": [[0, L], [1, 10 ** 9], [0, 10 ** 9]] + [[2, 10 ** 9]] * (len(case["srcs"]) > 2)}
        procs.append((L, subprocess.Popen([sys.executable, "-B", os.path.join(verif, "pyabverif", "cold_start.py"), json.dumps(spec)],
                                          env=env, stdout=subprocess.PIPE, stderr=subprocess.PIPE, text=True)))
    viol = []
    overl = 0
    for L, p in procs:
        so, se = p.communicate()
        try:
            r = json.loads(so)
        except ValueError:
            raise runner.HarnessError("cold-start child failed: %s" % (se[-500:],))
        overl += 1 if r.get("overlap") else 0
        for m in r["viol"]:
            viol.append("%s (first thread pre-empted after %d traced lines; traced lines per thread %r)" % (m, L, r.get("lines")))
    return {"viol": viol[:3], "nontrivial": overl > 0, "tags": ["cold-start"], "key": ["cold", case["srcs"], case["preempt_after"]],
            "sample": {"cold_start_sources": case["srcs"], "preempt_after": case["preempt_after"]}}


def judge_case(record):
    c = record["case"]
    if c.get("idless"):
        return judge_idless(c)["viol"]
    if "preempt_after" in c:
        return judge_cold(c)["viol"]
    if "texts" in c:
        return judge_storm(c)["viol"]
    return (judge_preemptive(c) if "rounds" in c else judge(c))["viol"]


def judge_idless(case):
    """experiments without splitter fields draw at random: from worker threads (pool threads that did not import the library)
    every draw is still one of the declared groups, never an error"""
    E = sut.evaluator_mod().ExperimentEvaluator
    dc = sut.binning().deterministic_choice
    text = 'def rnd { if plan == "pro" { return "R1" weighted 1, "R2" weighted 3 } else { return "R3" weighted 1, 4 weighted 1 } }'
    errors, seen = [], set()

    def work(i):
        try:
            ev = E(text) if i % 2 else shared
            for j in range(case["draws"]):
                seen.add(repr(ev(plan=["pro", "free"][(i + j) % 2])))
                seen.add(repr(dc(None, ["R1", "R2"], weights=[1, 1])))
                seen.add(repr(dc(None, ["R1", "R2", "R3"])))
        except BaseException as e:
            errors.append("%s: %s" % (type(e).__name__, str(e)[:200]))

    shared = E(text)
    ts = [threading.Thread(target=work, args=(i,), daemon=True) for i in range(case["threads"])]
    for t in ts:
        t.start()
    for t in ts:
        t.join(timeout=60)
    viol = []
    if errors:
        viol.append("id-less draws in %d worker threads raised: %s" % (case["threads"], errors[0]))
    extra = seen - {repr("R1"), repr("R2"), repr("R3"), repr(4)}
    if extra:
        viol.append("id-less draws in worker threads returned %s, which no statement declares" % sorted(extra)[:3])
    return {"viol": viol, "nontrivial": len(seen) >= 3, "tags": ["id-less-draws", "threads:%d" % case["threads"]], "key": ["idless", case["threads"], case["draws"]],
            "sample": {"id-less draws per thread": case["draws"], "threads": case["threads"]}}


def noise_cases():
    """threads that compile somebody's odd text right before their own construction, two at a time, run to completion one after
    the other and interleaved at a few points"""
    for n1 in range(len(THREAD_NOISE)):
        ops = [{"k": "construct", "src": n1 % len(SOURCES), "after": n1}, {"k": "construct", "src": (n1 + 2) % len(SOURCES), "after": (n1 + 1) % len(THREAD_NOISE)},
               {"k": "call", "ev": 0, "probe": 1, "times": 1}]
        for sched in ([[0, 10 ** 9], [1, 10 ** 9], [2, 10 ** 9]], [[1, 10 ** 9], [0, 10 ** 9], [2, 10 ** 9]], [[0, 400], [1, 900], [0, 10 ** 9], [1, 10 ** 9], [2, 10 ** 9]]):
            yield {"shared": [1], "ops": ops, "cycle": False, "schedule": sched}


def run(ctx, rec):
    if ctx.shard == 0:
        k2_probe(ctx, rec)
        if rec.violations:
            return
    if ctx.shard == 0:
        runner.direct_run(ctx, rec, "id-less-draws-in-worker-threads", [{"idless": True, "threads": t, "draws": d} for t, d in ((1, 20), (8, 50), (16, 20))], judge_idless)
        if rec.violations:
            return
    if ctx.shard == 0:
        runner.direct_run(ctx, rec, "odd-text-then-construct-in-one-thread", noise_cases(), judge)
        if rec.violations:
            return
    runner.hyp_run(ctx, rec, "owned-schedules", cases(), judge, ctx.n(150, 600), known_filter=known_filter)
    if rec.violations:
        return
    runner.direct_run(ctx, rec, "single-preemption-sweeps", sweep_cases(ctx), judge, known_filter=known_filter)
    if rec.violations:
        return
    runner.direct_run(ctx, rec, "call-call-double-sweeps", call_call_cases(ctx), judge)
    if rec.violations:
        return
    runner.direct_run(ctx, rec, "construct-construct-double-sweeps", construct_double_cases(ctx), judge)
    if rec.violations:
        return
    cold = st.builds(lambda a, b, ls: {"srcs": [a, b], "preempt_after": sorted(ls)}, st.integers(0, len(SOURCES) - 1),
                     st.integers(0, len(SOURCES) - 1),
                     st.lists(st.one_of(st.integers(1, 400), st.integers(400, 6000), st.integers(6000, 200000)), min_size=6, max_size=6, unique=True))
    runner.hyp_run(ctx, rec, "cold-start", cold, judge_cold, ctx.n(3, 6), shrink=False)
    if rec.violations:
        return
    if ctx.shard == 0:
        storms = [{"texts": list(range(24)), "interval": 1e-6, "rounds": 1}, {"texts": [0] * 8 + [1] * 8, "interval": 0.005, "rounds": 1}]
        if not ctx.quick:
            storms += [{"texts": list(range(32)), "interval": 1e-6, "rounds": 2}, {"texts": [2] * 16, "interval": 1e-5, "rounds": 3}]
        runner.direct_run(ctx, rec, "construction-storm", storms, judge_storm)
    if rec.violations or ctx.quick:
        return

    @st.composite
    def pre(draw):
        c = draw(cases(max_threads=16))
        c.pop("schedule")
        c["rounds"] = 20
        return c

    runner.hyp_run(ctx, rec, "pre-emptive", pre(), judge_preemptive, 40, shrink=False, known_filter=known_filter)
