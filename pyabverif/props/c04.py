"""C04 - realistic id populations split in proportion, independently across salts."""
from fractions import Fraction

from hypothesis import strategies as st

from .. import common, neighbours, runner, stats, sut
from .. import model as M

ID = "C04"
RULE = ("id family in {sequential ints, zero-padded numbers, UUID-like (scattered and sequential), e-mail-like, two-field keys "
        "with a fixed-width first field} x population offset x salt (absent, empty, short, long, non-ASCII) x weight vector "
        "(2-8 groups, ints/decimals, optional zero-weight group, optionally one label repeated on several slices, every expected count >= 50), offsets up to 2^63 and 10^24, N distinct units (2e4 quick, 1e5 "
        "thorough) evaluated through ExperimentEvaluator built from DSL text (the second salt either on a fresh evaluator or by recompile() of the live one, with a by-stander evaluator of other weights alive). Oracles: chi-square goodness-of-fit against the "
        "declared weights (zero-weight groups must stay empty) and chi-square contingency between the assignments of the same "
        "population under two different salts; reject below p = 1e-9. Non-trivial = every combination whose expected counts are "
        "all >= 50; distinct by (family, offset, salts, weights).")
RULE += (' Since rounds 6-7: salt pairs that weak fingerprints confuse (Adler-32 / CRC-32 twins, transpositions), long salts differing in one character, a refused deploy before the second salt, grouped targeting rules.')
RULE += (' Since rounds 14-15: targeting rules that rely on the documented precedence without parentheses.')
ASSUMPTIONS = [
    "significance 1e-9 per test: expected false-alarm rate per thorough run < 1e-5; deviations below ~1/sqrt(N) are invisible",
    "the two salts of a pair are different non-empty/absent strings that the published scheme maps to different keys",
]
SHARDS = {"quick": 4, "thorough": 16}

FAMILIES = ["seq-int", "zero-padded", "uuid-scattered", "uuid-sequential", "email", "two-field", "builtin-names", "twin-fields"]
SALTS = [None, "", "s", "exp_2024_checkout_button_colour_v3", "é-salt", "A", "B", "salt1", "salt2", "x" * 64,
         "https://exp.example/checkout/v1", "https://exp.example/checkout/v2", "a /* b */ c1", "a /* b */ c2", "{uid}", "%s"]
REGIONS = ["EU-W", "EU-E", "US-W", "US-E", "APAC"]
EXCLUDED_REGIONS = ["EU-W", "EU-E"]


def _units(family, offset, n):
    if family == "seq-int":
        return [{"uid": offset + i} for i in range(n)]
    if family == "zero-padded":
        return [{"uid": "%012d" % (offset + i)} for i in range(n)]
    if family == "uuid-scattered":
        out = []
        for i in range(n):
            x = ((offset + i) * 0x9E3779B97F4A7C15F39CC0605CEDC835 + 0x6A09E667F3BCC908) % (1 << 128)
            h = "%032x" % x
            out.append({"uid": "%s-%s-%s-%s-%s" % (h[:8], h[8:12], h[12:16], h[16:20], h[20:])})
        return out
    if family == "uuid-sequential":
        return [{"uid": "6f1e2a9c-0b7d-11ee-be56-%012x" % (offset + i)} for i in range(n)]
    if family == "email":
        doms = ["example.com", "mail.org", "corp.example.net"]
        return [{"uid": "user%d@%s" % (offset + i, doms[(offset + i) % 3])} for i in range(n)]
    if family == "two-field":
        return [{"region": REGIONS[(offset + i) % 5], "uid": (offset + i) // 5} for i in range(n)]
    if family == "builtin-names":
        # a multi-field key whose fields are named like Python builtins, one of them the other plus an underscore (id / id_)
        return [{"id": (offset + i) // 5, "id_": REGIONS[(offset + i) % 5], "type": "t%d" % ((offset + i) % 3)} for i in range(n)]
    if family == "twin-fields":
        # personal accounts: the account id IS the user id - two key fields that always carry the same value
        return [{"account_id": offset + i, "user_id": offset + i} for i in range(n)]
    raise ValueError(family)


@st.composite
def cases(draw, n):
    fam = draw(st.sampled_from(FAMILIES))
    k = draw(st.integers(2, 8))
    min_share = Fraction(50, n) * 2
    for _ in range(20):
        if draw(st.integers(0, 3)) == 0:
            ws = [str(draw(st.integers(1, 9))) for _ in range(k)]  # small integers: many vectors with arithmetic coincidences
        else:
            ws = [draw(st.sampled_from(["1", "1", "2", "3", "5", "10", "0.5", "2.5", "0.25", "7", "1.5", "20", "97"])) for _ in range(k)]
        tot = sum(Fraction(w) for w in ws)
        if min(Fraction(w) / tot for w in ws) >= min_share:
            break
    else:
        ws = ["1"] * k
    if draw(st.integers(0, 3)) == 0:
        ws.insert(draw(st.integers(0, len(ws))), "0")
    if draw(st.integers(0, 5)) == 0:
        ws = ["1", str(int(1 / (min_share * 2)))]  # one small share
    if draw(st.integers(0, 3)) == 0:
        # salts that differ only after a // or inside a /* */ look-alike, or only in blanks
        s1, s2 = draw(st.sampled_from([("https://exp.example/checkout/v1", "https://exp.example/checkout/v2"), ("a /* b */ c1", "a /* b */ c2"),
                                       ("s 1", "s  1"), ("x // y1", "x // y2"), ("salt1", "salt2")]))
    else:
        s1, s2 = draw(st.lists(st.sampled_from(SALTS), min_size=2, max_size=2, unique=True))
    if {s1, s2} == {None, ""}:
        s2 = "other"
    case = {"cond": draw(st.sampled_from([0, 0, 1, 2, 3, 4, 8])), "second": draw(st.sampled_from(["fresh", "recompile", "recompile"])), "family": fam, "offset": draw(st.sampled_from([0, 1, 1000, 10 ** 6, 10 ** 9, 123456789, 2 ** 31, 10 ** 12, 2 ** 53 - 7, 2 ** 60,
                                                           2 ** 63 - 200000, 1541815603606036480, 10 ** 24])), "weights": ws,
            "salts": [s1, s2], "n": n}
    if fam in ("builtin-names", "twin-fields") and case["cond"] in (3, 8):
        case["cond"] = 1
    if len(ws) >= 3 and draw(st.integers(0, 3)) == 0:
        # a label declared on several slices owns the sum of its slices (also 1 vs 1.0, which compare equal)
        pool = draw(st.sampled_from([["control", "treatment"], ["A", "B", "C"], [1, 1.0, "x"]]))
        case["labels"] = [M.enc(draw(st.sampled_from(pool))) for _ in ws]
    return case


def _text(case, salt, ws):
    labels = [M.dec(x) for x in case["labels"]] if case.get("labels") else ["g%d" % j for j in range(len(ws))]
    body = M.ret([(M.lit_of(l), w) for l, w in zip(labels, ws)])
    sp = ["region", "uid"] if case["family"] == "two-field" else ["id", "id_", "type"] if case["family"] == "builtin-names" else ["account_id", "user_id"] if case["family"] == "twin-fields" else ["uid"]
    if case.get("cond"):
        # the splitting field is ALSO read by a condition (that never diverts this population): still part of the key
        f = "region" if case["family"] == "two-field" and case["cond"] == 2 else "id" if case["family"] == "builtin-names" else "user_id" if case["family"] == "twin-fields" else "uid"
        body = M.if_([(M.cmp_(M.ident(f), "in", M.tup([M.lit_str("qa-account-1"), M.lit_str("qa-account-2")])),
                       M.ret([(M.lit_str("qa"), "1")]))], body)
    if case.get("cond") == 3:
        # targeting rules whose grouping parentheses matter: ( true or x ) and false  /  not ( false or true ) - neither diverts
        # this population as written, both would if the grouping were lost
        I, S = M.ident, M.lit_str
        inner = body["else"]
        g1 = M.and_(M.or_(M.cmp_(I("uid"), "!=", S("qa-1")), M.cmp_(I("uid"), "==", S("qa-3")), 1), M.cmp_(I("uid"), "==", S("qa-2")))
        g2 = M.not_(M.or_(M.cmp_(I("uid"), "==", S("qa-1")), M.cmp_(I("uid"), "!=", S("qa-1")), 1))
        body = M.if_([(g1, M.ret([(S("qa"), "1")])), (g2, M.ret([(S("qa2"), "1")]))], inner)
    if case.get("cond") == 8:
        # targeting rules that rely on the documented precedence (not > and > or) WITHOUT parentheses:
        # `not A and B` is (not A) and B - false here; `A or B and C` is A or (B and C) - true here
        I, S = M.ident, M.lit_str
        inner = body["else"]
        g1 = M.and_(M.not_(M.cmp_(I("uid"), "==", S("qa-1"))), M.cmp_(I("uid"), "==", S("qa-2")))
        g2 = M.or_(M.cmp_(I("uid"), "!=", S("qa-1")), M.and_(M.cmp_(I("uid"), "!=", S("qa-3")), M.cmp_(I("uid"), "==", S("qa-2"))))
        body = M.if_([(g1, M.ret([(S("qa"), "1")])), (g2, inner)], M.ret([(S("qa2"), "1")]))
    if case.get("cond") == 4:
        # every unit comes without a score (NaN): `not score < 50` is true for all of them, so they get THIS statement's weights;
        # the else branch holds the mirrored weights
        I = M.ident
        inner = body["else"]
        mirrored = M.ret([(g["lit"], w) for g, w in zip(inner["groups"], [g["w"] for g in inner["groups"]][::-1])])
        body = M.if_([(M.not_(M.cmp_(I("score"), "<", M.lit_int("50"))), inner)], mirrored)
    if case.get("cond") == 5:
        # a guard-only nested `if` followed by an else: units that pass the outer test but not the inner one are excluded by
        # the text (unroutable) - they must not be served by the else branch
        I, S = M.ident, M.lit_str
        inner = body["else"]
        body = M.if_([(M.cmp_(I("region"), "in", M.tup([S(r) for r in EXCLUDED_REGIONS])),
                       M.if_([(M.cmp_(I("uid"), "<", M.lit_int("0")), M.ret([(S("qa"), "1")]))], None))], inner)
    if case.get("cond") == 7:
        # a one-member list ( "EU-WEST" ) is a tuple with one member, not a parenthesised string: "EU-W" is no member of it
        # (it would be a substring of the string)
        I, S = M.ident, M.lit_str
        inner = body["else"]
        body = M.if_([(M.cmp_(I("region"), "in", M.tup([S("EU-WEST")])), M.ret([(S("qa"), "1")])),
                      (M.cmp_(I("region"), "not in", M.tup([S("xAPACx")])), inner)], M.ret([(S("qa2"), "1")]))
    if case.get("cond") == 6:
        # no splitter fields at all (with or without a salt): the draw is random by weight, so the population still splits in
        # proportion (the global generator is seeded by the harness: a pure function of the case)
        sp = None
    q = "'" if salt is not None and '"' in salt else '"'
    return M.render(M.program("pop", body, salt=salt, splitters=sp, salt_q=q))


def _evaluate(case, ev):
    fam = case["family"]
    ws = case["weights"]
    labels = [M.dec(x) for x in case["labels"]] if case.get("labels") else ["g%d" % j for j in range(len(ws))]

    # observed class of a result = first slice carrying the same label (value and type)
    def cls(v):
        for j, l in enumerate(labels):
            if sut.same_value(v, l):
                return j
        raise KeyError(v)

    cache = {}
    out = []
    for u in _units(fam, case["offset"], case["n"]):
        if case.get("cond") == 4:
            u = dict(u, score=float("nan"))
        if case.get("cond") == 5 and u["region"] in EXCLUDED_REGIONS:
            try:
                v = ev(**u)
            except sut.unroutable_error():
                out.append(None)  # excluded, as written
                continue
            except Exception as e:
                return None, "evaluation failed for %r: %s %s" % (u, type(e).__name__, e)
            return None, "unit %r is excluded by the targeting rule (outer test true, inner test false, no else) but was served %r" % (u, v)
        try:
            v = ev(**u)
            k = (type(v), v)
            if k not in cache:
                cache[k] = cls(v)
            out.append(cache[k])
        except Exception as e:
            return None, "evaluation failed for %r: %s %s" % (u, type(e).__name__, e)
    return out, None


def judge(case):
    ws = case["weights"]
    n = case["n"]
    tot = sum(Fraction(w) for w in ws)
    exp = [float(Fraction(w) / tot * n) for w in ws]
    if case.get("labels"):
        # fold the expectation of repeated labels onto their first slice
        labels = [M.dec(x) for x in case["labels"]]
        folded = [0.0] * len(ws)
        for j, l in enumerate(labels):
            first = next(i for i, m in enumerate(labels) if sut.same_value(l, m))
            folded[first] += exp[j]
        exp = folded
    viol = []
    vecs = []
    tags = ["family:" + case["family"]]
    # construction order matters for state that leaks between evaluators: both evaluators of the pair (or the single live
    # one in recompile mode) are built first, then a by-stander with other groups, weights and salt; only then do we evaluate
    mode = case.get("second", "fresh")
    texts = [_text(case, salt, ws) for salt in case["salts"]]
    evs = []
    for t in (texts if mode == "fresh" else texts[:1]):
        r = sut.compile_text(t)
        if r[0] != "ok":
            return {"viol": ["does not compile: %r | %s" % (r[1:], t)], "tags": tags}
        evs.append(r[1])
    sut.compile_text(M.render(M.program("pop", M.ret([(M.lit_str("by%d" % j), w) for j, w in enumerate(list(reversed(ws)) + ["3"])]),
                                         salt="bystander", splitters=["region", "uid"] if case["family"] == "two-field" else ["uid"])))
    tags.append("second-salt-via:" + mode)
    if case.get("cond") == 6:
        import random

        random.seed(case["offset"] * 31 + len(ws))  # one seeding for both evaluations: two different stretches of the stream
    for si, salt in enumerate(case["salts"]):
        tags.append("salt:" + ("none" if salt is None else "empty" if salt == "" else "non-ascii" if not salt.isascii() else "ascii"))
        if mode == "fresh":
            ev = evs[si]
        else:
            ev = evs[0]
            if si == 1:
                try:
                    if case["n"] % 2 == 0 and len(case["weights"]) % 2:
                        common.refused_deploy(ev, texts[1])
                        tags.append("refused-deploy-before-the-second-salt")
                    if case["offset"] % 2:
                        common.recycled_recompile(ev, texts[0], texts[1])
                    else:
                        ev.recompile(texts[1])
                except Exception as e:
                    return {"viol": ["recompile raised %s: %s | %s" % (type(e).__name__, e, texts[1])], "tags": tags}
        a, err = _evaluate(case, ev)
        if err:
            return {"viol": [err + " | " + texts[si]], "tags": tags}
        vecs.append(a)
        obs = [0] * len(ws)
        served = [i for i in a if i is not None]  # (cond 5: units the targeting rule excludes are not served)
        for i in served:
            obs[i] += 1
        if len(served) != n:
            exp = [e * len(served) / n for e in exp]
            n = len(served)
        for j, w in enumerate(ws):
            if exp[j] == 0 and obs[j]:
                viol.append("zero-weight group %d received %d units" % (j, obs[j]))
        stat, df, p = stats.chi2_gof(obs, exp)
        if p < 1e-9:
            viol.append("group frequencies %r inconsistent with weights %r (expected %s): chi2=%.1f df=%d p=%.3g | family=%s offset=%d salt=%r N=%d"
                        % (obs, ws, [round(e, 1) for e in exp], stat, df, p, case["family"], case["offset"], salt, n))
    if len(vecs) == 2:
        k = len(ws)
        table = [[0] * k for _ in range(k)]
        for a, b in zip(*vecs):
            if a is not None and b is not None:
                table[a][b] += 1
        stat, df, p = stats.chi2_contingency(table)
        if p < 1e-9:
            viol.append("assignments under salts %r and %r are not independent: chi2=%.1f df=%d p=%.3g | family=%s offset=%d weights=%r N=%d"
                        % (case["salts"][0], case["salts"][1], stat, df, p, case["family"], case["offset"], ws, n))
    if case.get("labels"):
        tags.append("repeated-labels")
    if case["offset"] >= 2 ** 53 - 7:
        tags.append("ids>=2^53")
    return {"viol": viol, "nontrivial": min([e for e in exp if e > 0] or [0]) >= 50, "tags": tags,
            "key": [case["family"], case["offset"], case["salts"], ws, case.get("labels"), case.get("cond")],
            "sample": {k: v for k, v in case.items() if not k.startswith("_")}}


def judge_case(record):
    return judge(record["case"])["viol"]


def selftest():
    stats.selftest()


def fixed_cases(n):
    pairs = [("https://exp.example/checkout/v1", "https://exp.example/checkout/v2"), ("a /* b */ c1", "a /* b */ c2"), ("s 1", "s  1"),
             ("x // y1", "x // y2"), (None, "A"), ("", "B"), ("checkout", "checkout'"), ('q"', "q"), ("Exp", "exp"), (" s", "s"),
             # different salts that weak change-detection fingerprints cannot tell apart (same length and Adler-32 / byte sum / CRC-32)
             ("exp_121", "exp_202"), ("v0110", "v1001"), ("exp_ab", "exp_ba"), (neighbours.CRC_A, neighbours.CRC_B),
             # long salts that differ only in their last / first / middle character
             ("checkout_recommendations_ranker_2026q3_a", "checkout_recommendations_ranker_2026q3_b"), ("x" * 300 + "1", "x" * 300 + "2"),
             ("a" + "y" * 100, "b" + "y" * 100), ("m" * 40 + "1" + "m" * 40, "m" * 40 + "2" + "m" * 40)]
    # different salts whose digests agree in 32 bits (a short token derived from the salt cannot tell them apart)
    pairs += neighbours.digest_prefix_twins()
    fams = FAMILIES
    for i, (s1, s2) in enumerate(pairs):
        yield {"second": "recompile", "family": fams[i % len(fams)], "offset": [0, 10 ** 6, 2 ** 60][i % 3], "weights": ["1", "1", "2"],
               "salts": [s1, s2], "n": n}
        yield {"second": "fresh", "family": fams[(i + 3) % len(fams)], "offset": [1, 2 ** 53 - 7, 10 ** 9][i % 3], "weights": ["3", "0", "1", "2.5"],
               "salts": [s2, s1], "n": n}
    yield {"second": "fresh", "family": "seq-int", "offset": 0, "weights": ["2", "1", "1", "2"], "salts": ["A", "B"], "n": n,
           "labels": [M.enc(x) for x in ["control", "treatment", "holdout", "treatment"]]}
    for fam, c in (("seq-int", 1), ("email", 1), ("two-field", 2), ("two-field", 1), ("uuid-sequential", 1), ("zero-padded", 3), ("two-field", 3), ("seq-int", 4), ("email", 4), ("two-field", 5), ("builtin-names", 0), ("builtin-names", 1), ("seq-int", 6), ("email", 6), ("two-field", 7), ("twin-fields", 0), ("twin-fields", 1), ("seq-int", 8), ("two-field", 8)):
        yield {"cond": c, "second": "fresh", "family": fam, "offset": 5, "weights": ["1", "3"], "salts": ["A", "B"], "n": n}
    yield {"second": "fresh", "family": "email", "offset": 7, "weights": ["1", "2", "1"], "salts": ["A", "B"], "n": n,
           "labels": [M.enc(x) for x in ["B", "B'", '"B']]}
    # vectors with special structure: first weight equal to the mean, equal weights, a zero in front, one dominant group
    for i, ws in enumerate([["2", "1", "3"], ["5", "1", "9"], ["1", "0", "2"], ["3", "1", "2", "6"], ["1", "1", "1"], ["0", "1", "1"],
                            ["1", "2", "3", "4", "5", "6", "7", "8"], ["0.5", "0.25", "0.75"], ["10", "1", "1", "1", "1", "1", "1", "4"],
                            ["0.0000000000002", "0.0000000000006"], ["0.0000000000001", "0", "0.0000000000002", "0.0000000000001"], ["3" + "0" * 40, "1" + "0" * 40]]):
        yield {"second": "fresh", "family": fams[i % len(fams)], "offset": 1000 * i, "weights": ws, "salts": ["salt1", "salt2"], "n": n}


def run(ctx, rec):
    n = 20000 if ctx.quick else 100000
    if ctx.shard == 0:
        runner.direct_run(ctx, rec, "fixed-combinations", fixed_cases(n), judge)
        if rec.violations:
            return
    runner.hyp_run(ctx, rec, "populations", cases(n), judge, ctx.n(8, 40), shrink=False)
