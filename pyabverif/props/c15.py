"""C15 - evaluation is total over field values."""
from hypothesis import strategies as st

from .. import gen, runner, sut
from .. import model as M

ID = "C15"
RULE = ("Splitter values and unrelated extra fields drawn from: text over all planes (NUL, quotes, empty, combining marks, "
        "up to 1e5 characters in a tail), ints up to 10^4000, floats incl. nan/+-inf/-0.0, bool, None; salts over every "
        "character a one-line DSL string can hold (either quote style). Oracle: a group of the program is returned (no "
        "exception), deterministic_proba(s) in [0,1), and f(v) == f(str(v)) (units that print identically share a bucket). "
        "Non-trivial = value is non-ASCII, empty, >1000 characters, non-str, or contains NUL/quote, or the salt is "
        "non-ASCII; distinct by (program text, inputs).")
RULE += (" Since rounds 6-7: runs of quotes / backslashes as salts, typographic look-alikes; a quarter of the cases run with CPython's int digit limit lifted (bigger ints are then legal values); interpreter-wide settings compared around every case.")
RULE += (' Since rounds 14-15: splitters that the conditions compare with text only, given values of every type.')
ASSUMPTIONS = [
    "lone surrogates are excluded: they have no UTF-8 encoding, the published scheme is undefined on them",
    "ints above CPython's 4300-digit str() conversion limit are excluded: the interpreter itself refuses to print them",
    "salt characters that any convention treats as a line break are excluded (strings are documented as single-line)",
]
SHARDS = {"quick": 1, "thorough": 16}

_text_any = st.text(alphabet=st.characters(exclude_categories=["Cs"]), max_size=30)
_special = st.sampled_from(["", "\x00", "a\x00b", "josé", "José", "日本語", "\U0001f600", "'", '"', "it's", '"q"', "\\", "\\n",
                            "ß", "İ", "​", "﻿", "﷽", "a" * 1001, "é" * 5000, "x" * 100000, " ", "\t", "\n", "\r\n"])
_values = st.one_of(
    _text_any, _special,
    st.integers(-10 ** 30, 10 ** 30), st.sampled_from([10 ** 4000, -10 ** 4000 + 1, 2 ** 64, 0, -1]),
    st.floats(), st.sampled_from([float("nan"), float("inf"), float("-inf"), -0.0, 1.0, 1e300, 5e-324]),
    st.booleans(), st.none(), st.sampled_from([1, "1", 1.0, "1.0", True, "True", None, "None"]))


CLUSTERS = [[1, True, 1.0], [0, False, 0.0, -0.0], [2, 2.0], [10 ** 20, 1e20], [-1, -1.0]]


@st.composite
def salts(draw):
    k = draw(st.integers(0, 9))
    if k < 2:
        return None
    if k < 5:
        return draw(st.sampled_from(["s", "", "é", "É", "salt-日本", "\U0001f9ea", "a'b", 'a"b', "\\", "tab\there", "\x00", "\x7f", "%s", "{}", "a\rb", "\r", "\x0c", "\u2028", "\x85z", "s" * 300, "007", "1e3", "nan",
                                     'say """hi"""', '"""', "'''", '""', "''", '""""""', "x\\", '\\"', "\\\\", "#", "# x", "\\N{DASH}", "\\x41", "\\u0041", "{{}}", "}{", "$", "`",
                                     "prix_d\u2019\u00e9t\u00e9", "\u2018q\u2019", "\u201cq\u201d", "a\u2013b", "\u22121", "x\u200by"]))
    if k < 6:
        # runs of quotes / backslashes / braces / percent signs (doc strings, raw strings, templates)
        return draw(st.text(alphabet=draw(st.sampled_from(['"\\', "'\\", '"{}%', "'# \\"])), min_size=1, max_size=8))
    s = draw(st.text(alphabet=st.characters(exclude_categories=["Cs"], exclude_characters=M.LINE_BREAKS), max_size=20))
    return s


@st.composite
def cases(draw):
    ns = draw(st.integers(1, 3))
    names = draw(st.lists(st.sampled_from(gen.PLAIN_POOL), min_size=ns, max_size=ns, unique=True))
    salt = draw(salts())
    q = '"'
    if salt is not None:
        if '"' in salt and "'" in salt:
            salt = salt.replace(draw(st.sampled_from(['"', "'"])), "")
        q = "'" if '"' in salt else draw(st.sampled_from(['"', "'"])) if "'" not in salt else '"'
    ng = draw(st.integers(2, 16))
    ws = draw(gen.weight_vector(ng, "nice"))
    body = M.ret([(M.lit_str("g%d" % j), ws[j]) for j in range(ng)])
    prog = M.program("exp", body, salt=salt, splitters=names, salt_q=q)
    inputs = []
    cluster = draw(st.sampled_from(CLUSTERS)) if draw(st.integers(0, 3)) == 0 else None
    for _ in range(draw(st.integers(2, 6))):
        env = {n: draw(_values) for n in names}
        if cluster is not None:
            # ==-equal values that print differently, in generated order on one evaluator
            env[names[0]] = draw(st.sampled_from(cluster))
        lookalikes = [v for n in names for v in (n.upper(), n.capitalize(), n.swapcase(), n + "_", "_" + n, n + "2") if v not in names]
        for extra in draw(st.lists(st.sampled_from(["extra1", "unused", "zzz", "other_field"] + lookalikes), max_size=3, unique=True)):
            # an unrelated field is never printed, so even an int that CPython refuses to convert to text is fine there
            env[extra] = draw(st.one_of(_values, st.sampled_from([10 ** 5000, -(10 ** 6000), float("nan"), (1, 2), [1, 2]])))
        inputs.append(M.enc_inputs(env))
    case = {"prog": prog, "inputs": inputs}
    if draw(st.integers(0, 3)) == 0:
        # a host application that has lifted CPython's int <-> text limit (sys.set_int_max_str_digits(0)) before using the
        # library: ints of any size print, so they are legal splitter values and must get the bucket of their text
        case["ambient"] = "int-limit-lifted"
        env = dict(M.dec_inputs(inputs[0]))
        env[names[0]] = draw(st.sampled_from([10 ** 5000, -(10 ** 4400), 7 ** 6000, 10 ** 4300]))
        inputs.append(M.enc_inputs(env))
    return case


def _short(v):
    if isinstance(v, int) and not isinstance(v, bool) and v.bit_length() > 200:
        return "<int of %d bits>" % v.bit_length()
    if isinstance(v, str) and len(v) > 60:
        return v[:40] + "..."
    return v


def _interesting(v):
    if isinstance(v, str):
        return (not v.isascii()) or v == "" or len(v) > 1000 or "\x00" in v or "'" in v or '"' in v
    return True


def judge(case):
    from .. import common

    if case.get("ambient") == "int-limit-lifted":
        with common.ambient(int_digits=0):
            v = _judge(case)
        v["tags"] = sorted(set(v["tags"]) | {"ambient:int-limit-lifted"})
        return v
    return _judge(case)


def _judge(case):
    from .. import common

    prog = case["prog"]
    text = M.render(prog)
    state0 = common.global_state()
    res = sut.compile_text(text)
    salt = prog["salt"]["v"] if prog["salt"] else None
    tags = ["salt:none" if salt is None else ("salt:non-ascii" if not salt.isascii() else "salt:ascii")]
    if res[0] != "ok":
        return {"viol": ["does not compile: %s %s | %r" % (res[1], res[2], text)], "tags": tags}
    ev = res[1]
    labels = [M.lit_value(g["lit"]) for g in prog["body"]["groups"]]
    zero = {M.lit_value(g["lit"]) for g in prog["body"]["groups"] if float(g["w"]) == 0}
    viol = []
    nt = salt is not None and not salt.isascii()
    for enc in case["inputs"]:
        env = M.dec_inputs(enc)
        act = sut.call(ev, env)
        short = {k: _short(v) for k, v in env.items()}
        if act[0] != "group" or act[1] not in labels:
            viol.append("no group returned: %r | salt=%r | inputs=%r" % (act, salt, short))
            continue
        if act[1] in zero:
            viol.append("zero-weight group %r returned | inputs=%r" % (act[1], short))
        for n in prog["splitters"]:
            v = env[n]
            tags.append("value:" + type(v).__name__)
            if isinstance(v, str):
                if not v.isascii():
                    tags.append("value:non-ascii")
                if len(v) > 1000:
                    tags.append("value:long")
                if "\x00" in v:
                    tags.append("value:NUL")
            if _interesting(v):
                nt = True
        # unrelated extra fields (whatever their names and values) have no say
        env0 = {n: env[n] for n in prog["splitters"]}
        if len(env0) != len(env):
            act0 = sut.call(ev, env0)
            if act0 != act:
                viol.append("unrelated extra fields changed the outcome: %r without them, %r with them | inputs=%r" % (act0, act, short))
        # units whose splitter values print identically share a bucket
        env2 = dict(env)
        for n in prog["splitters"]:
            env2[n] = str(env[n])
        act2 = sut.call(ev, env2)
        if act2 != act:
            viol.append("f(v) != f(str(v)): %r vs %r | inputs=%r" % (act, act2, short))
    changed = common.state_diff(state0, common.global_state())
    if changed:
        viol.append("compiling / evaluating changed interpreter-wide state: %s | %r" % ("; ".join(changed), text[:120]))
        common.restore_state(state0)
    return {"viol": viol, "nontrivial": nt, "tags": sorted(set(tags)), "key": [text, case["inputs"], case.get("ambient")],
            "sample": {"text": text[:200], "inputs": [{k: repr(_short(v))[:60] for k, v in M.dec_inputs(e).items()} for e in case["inputs"][:2]]}}


def judge_proba(case):
    s = case["s"]
    try:
        u = sut.binning().deterministic_proba(s)
    except Exception as e:
        return {"viol": ["deterministic_proba(%r) raised %s: %s" % (s[:60], type(e).__name__, e)], "tags": ["proba"]}
    ok = isinstance(u, float) and 0.0 <= u < 1.0
    return {"viol": [] if ok else ["deterministic_proba(%r) = %r not in [0,1)" % (s[:60], u)], "nontrivial": _interesting(s),
            "tags": ["proba"], "key": ["p", s], "sample": {"deterministic_proba": s[:80]}}


def judge_case(record):
    c = record["case"]
    if c.get("shared"):
        return judge_shared(c)["viol"]
    return (judge_proba(c) if "s" in c else judge(c))["viol"]


def fixed_cases():
    """every catalogue salt / hostile-but-legal string as the salt (either quote style where possible) with a handful of values,
    and unrelated extra fields whose names differ from a splitter's only in letter case"""
    pool = []
    for s_ in ['say """hi"""', '"""', "'''", '""', "''", '""""""', "x\\", '\\"', "\\\\", "#", "\x00", "\x7f", "%s", "{}", "a\rb", "\x0c", "\u2028", "s" * 300,
               "a'b", 'a"b'] + gen.TRICKY_STRS:
        if s_ not in pool and not any(c in s_ for c in M.LINE_BREAKS) and not ('"' in s_ and "'" in s_):
            pool.append(s_)
    vals = ["u1", "", 0, None, True, 1.5, "é", "\x00"]
    body = M.ret([(M.lit_str("g%d" % j), "1") for j in range(8)])
    for s_ in pool:
        for q in ('"', "'"):
            if q in s_:
                continue
            prog = M.program("exp", body, salt=s_, splitters=["my_id", "region"], salt_q=q)
            inputs = [M.enc_inputs({"my_id": v, "region": "eu", "MY_ID": "other-%d" % i, "Region": i, "REGION": None}) for i, v in enumerate(vals)]
            yield {"prog": prog, "inputs": inputs}
    # one splitter and no salt (the key is just the text of the value), two splitters, an empty salt: every falsy / odd value,
    # several times over
    body = M.ret([(M.lit_str("g%d" % j), "1") for j in range(16)])
    odd = [None, None, None, "", "", 0, 0.0, False, True, -0.0, float("nan"), float("inf"), 10 ** 30, "None", "0", " ", "\x00", "é"]
    for salt in (None, "", "s"):
        for names in (["uid"], ["uid", "tenant"]):
            prog = M.program("exp", body, salt=salt, splitters=names)
            yield {"prog": prog, "inputs": [M.enc_inputs({n: v for n in names}) for v in odd]}


def shared_cases():
    """a splitter that the conditions read as well (its text goes into the key, its VALUE is compared): every value type still
    gets a group, and the right one"""
    I, L, S = M.ident, M.lit_int, M.lit_str
    G = lambda p: M.ret([(S("%s%d" % (p, j)), "1") for j in range(4)])  # noqa: E731
    body = M.if_([(M.cmp_(I("account_id"), "==", L("7")), G("seven")),
                  (M.cmp_(I("account_id"), "in", M.tup([L("1"), S("x"), M.lit_float("2.5"), S("7")])), G("listed")),
                  (M.and_(M.cmp_(I("account_id"), "!=", S("")), M.cmp_(I("region"), "not in", M.tup([S("eu"), L("0")]))), G("other"))], G("rest"))
    vals = [7, 7.0, "7", True, 1, 1.0, "x", 2.5, "", None, 0, False, float("nan"), 10 ** 30, -0.0, "é", b"7", (7,), 9007199254740993]
    for salt in (None, "s"):
        prog = M.program("exp", body, salt=salt, splitters=["account_id", "region"])
        yield {"shared": True, "prog": prog, "inputs": [M.enc_inputs({"account_id": v, "region": r}) for v in vals for r in ("eu", "us", 0)]}
    # splitters that the conditions compare with TEXT only (country in ("FR", "BE"), == "DE", not in a string): the value may
    # still be of any type (None for "unknown", a numeric code, a bool) and still gets its group
    body2 = M.if_([(M.cmp_(I("country"), "in", M.tup([S("FR"), S("BE")])), G("fr")), (M.cmp_(I("country"), "==", S("DE")), G("de")),
                   (M.cmp_(S("x"), "!=", I("segment")), G("seg"))], G("rest"))
    vals2 = ["FR", "DE", "x", "", None, 0, 1, 33, 2.5, True, False, float("nan"), 10 ** 30, -0.0, "é", (1, 2), 9007199254740993]
    for salt, names in ((None, ["country", "uid"]), ("s", ["uid", "segment", "country"]), ("", ["segment"])):
        prog = M.program("exp", body2, salt=salt, splitters=names)
        yield {"shared": True, "prog": prog, "inputs": [M.enc_inputs({"country": v, "segment": w, "uid": "u1"}) for v in vals2 for w in ("x", None, 7)]}


def judge_shared(case):
    from .. import common

    prog = case["prog"]
    text = M.render(prog)
    res = sut.compile_text(text)
    if res[0] != "ok":
        return {"viol": ["does not compile: %s %s | %r" % (res[1], res[2], text)], "tags": ["shared-splitter-condition-field"]}
    viol = []
    for enc in case["inputs"]:
        env = M.dec_inputs(enc)
        msg = common.check_routing(prog, env, sut.call(res[1], env))
        if msg:
            viol.append("%s | inputs=%r | %s" % (msg, env, text[:200]))
    return {"viol": viol[:4], "nontrivial": True, "tags": ["shared-splitter-condition-field"], "key": [text, case["inputs"]], "sample": {"text": text[:200]}}


def run(ctx, rec):
    if ctx.shard == 0:
        runner.direct_run(ctx, rec, "salt-catalogue", fixed_cases(), judge)
        if rec.violations:
            return
        runner.direct_run(ctx, rec, "splitter-also-read-by-conditions", shared_cases(), judge_shared)
        if rec.violations:
            return
    runner.hyp_run(ctx, rec, "programs", cases(), judge, ctx.n(500, 3000))
    if rec.violations:
        return
    runner.hyp_run(ctx, rec, "proba", st.builds(lambda s: {"s": s}, st.one_of(_text_any, _special)), judge_proba, ctx.n(1000, 5000))
