"""C12 - the published bucketing scheme is pinned (MD5 / UTF-8 / salt first / alphabetical field order)."""
from hypothesis import strategies as st

from .. import gen, refbucket, runner, sut
from .. import model as M

ID = "C12"
RULE = ("Programs with 1-4 splitter fields (mixed case / underscore names in every declaration order), salts "
        "(absent, empty, ASCII, non-ASCII, quotes, backslashes), values str/int/float/bool/None, single- and "
        "two-branch, 16-64 groups; edge keys (empty key, falsy values); arbitrary generated programs (conditionals, tuples, hostile strings, shared fields) whose every result is predicted completely - route by the reference interpreter, position by the published scheme, slice by the exact partition - on fresh evaluators and on one long-lived evaluator recompile()d from program to program with unrelated compiles in between; plus deterministic_proba on generated strings and RFC 1321 known answers. "
        "Oracle: independent re-implementation of the published scheme + exact partition. Non-trivial = >=2 "
        "splitters or a salt, and >=16 groups; distinct by (program text, inputs).")
RULE += (' Since rounds 6-7: every neighbour pair of three fixed programs through one live evaluator, every catalogue salt (incl. typographic look-alikes) walked deterministically, refused deploys in between.')
RULE += (' Since rounds 14-15: keys whose length sits on block sizes (55-57, 2^k+-1, multiples of 4096 up to 2^20); str / int subclasses whose str() differs; fragments of the generated code as salts.')
ASSUMPTIONS = [
    "'alphabetical order of field name' is code-point order (what the pinned implementation's sorted() does)",
    "lone surrogates are excluded (no UTF-8 encoding exists; the scheme is undefined on them)",
    "float ambiguity zone of 1e-12*total around a boundary accepts either neighbour (counted)",
]
SHARDS = {"quick": 1, "thorough": 16}

NAMES = ["user_id", "uid", "Zeta", "alpha", "Beta", "_id", "a", "B", "b", "a_b", "aB", "A1", "country", "device", "z9", "Z",
         # names of Python builtins (legal field names) next to siblings that extend them: id / id2 / id_ / idx
         "seg_9", "seg_10", "f2", "f10", "x1", "x02", "x3", "v1_2", "v1_10", "id", "id2", "id_", "idx", "type", "typeB", "hash", "hashV2", "input", "max", "max_", "format", "len", "list", "dict", "object"]
SALTS_ASCII = ["x" * 70 + "_v1", "campaign-2024-q3-checkout-button-colour-test-for-returning-customers-v12", "007", "00", "0042", "1.50", "1e3",
               "1_000", "12", "-3", " 7", "inf", "nan", "0x10", "True", "None", "3", "0.0", " lead", "trail ", "\ttab", " ", "  ", "a  b", "x\t", "", "s", "exp-2024", "A B", "csdvs887", "it's", 'say "hi"', "C:\\temp\\new", "a\\", "%s{0}", "#x//y", "/* c */"]
SALTS_UNI = ["é", "jose\u0301", "日本語", "salt-\U0001f600", "ß", "İ", "\u00a0x", "x\u3000", "\u2126", "\ufb01", "\uff21",
             "prix_d\u2019\u00e9t\u00e9_2024", "\u2018q\u2019", "\u201cq\u201d", "men\u2019s", "a\u2013b", "a\u2014b", "\u22121", "\u00abq\u00bb", "a\u2032", "\u00b4a", "x\u200by", "\u00ad"]


@st.composite
def cases(draw):
    ns = draw(st.integers(1, 4))
    names = draw(st.lists(st.sampled_from(NAMES), min_size=ns, max_size=ns, unique=True))
    kind = draw(st.integers(0, 9))
    if kind < 3:
        salt = None
    elif kind < 8:
        salt = draw(st.sampled_from(SALTS_ASCII))
    else:
        salt = draw(st.sampled_from(SALTS_UNI))
    if salt is not None and kind == 7:
        salt = draw(st.text(alphabet=st.characters(exclude_categories=["Cs", "Cc"], exclude_characters=M.LINE_BREAKS + '"'),
                            max_size=12))
    q = '"'
    if salt is not None and '"' in salt:
        q = "'"
        if "'" in salt:
            salt = salt.replace("'", "")
    ng = draw(st.sampled_from([16, 16, 32, 64, 17, 50]))
    equal = draw(st.booleans())

    def mkret(tag):
        ws = ["1"] * ng if equal else draw(gen.weight_vector(ng, "nice"))
        return M.ret([(M.lit_str("%s%d" % (tag, j)), ws[j]) for j in range(ng)])

    two = draw(st.booleans())
    if two:
        body = M.if_([(M.cmp_(M.ident("route"), "==", M.lit_int("1")), mkret("p"))], mkret("q"))
    else:
        body = mkret("g")
    declared = list(names)
    if draw(st.integers(0, 5)) == 0:
        declared.insert(draw(st.integers(0, len(declared))), draw(st.sampled_from(names)))  # a field listed twice is one field
    prog = M.program(draw(st.sampled_from(gen.EXP_NAMES)), body, salt=salt, splitters=declared, salt_q=q)
    inputs = []
    for _ in range(draw(st.integers(3, 8))):
        env = {n: draw(gen.splitter_values(wild=True)) for n in names}
        if draw(st.integers(0, 7)) == 0:  # long ids: the whole key is hashed, not a prefix
            env[names[0]] = draw(st.sampled_from(["u", "é", "ab"])) * draw(st.integers(100, 1500)) + str(draw(st.integers(0, 99)))
        if two:
            env["route"] = draw(st.sampled_from([0, 1]))
        inputs.append(M.enc_inputs(env))
    return {"prog": prog, "inputs": inputs}


def judge(case):
    prog = case["prog"]
    text = M.render(prog)
    res = sut.compile_text(text)
    tags = ["splitters:%d" % len(prog["splitters"])]
    salt = prog["salt"]["v"] if prog["salt"] else None
    tags.append("salt:none" if salt is None else ("salt:empty" if salt == "" else ("salt:non-ascii" if not salt.isascii() else "salt:ascii")))
    if res[0] != "ok":
        return {"viol": ["does not compile: %s %s | %s" % (res[1], res[2], text)], "tags": tags}
    ev = res[1]
    viol = []
    rets = M.returns(prog["body"])
    ng = len(rets[0]["groups"])
    for enc in case["inputs"]:
        env = M.dec_inputs(enc)
        fields = {n: env[n] for n in prog["splitters"]}
        k = refbucket.published_position(salt, fields)
        stmt = rets[0] if (len(rets) == 1 or env.get("route") == 1) else rets[1]
        ws = [g["w"] for g in stmt["groups"]]
        idx, ok, zone = refbucket.select(ws, k)
        act = sut.call(ev, env)
        for v in env.values():
            tags.append("value:" + type(v).__name__)
            if isinstance(v, str) and not v.isascii():
                tags.append("value:non-ascii")
        if zone:
            tags.append("ambiguity-zone")
        allowed = [M.lit_value(stmt["groups"][i]["lit"]) for i in ok]
        if act[0] != "group" or act[1] not in allowed:
            viol.append("published scheme gives key %r -> grid point %d -> group %r, evaluator gave %r | %s | inputs=%r"
                        % (refbucket.published_key(salt, fields), k, allowed, act[1:], text, env))
    nontrivial = (len(prog["splitters"]) >= 2 or salt is not None) and ng >= 16
    return {"viol": viol, "nontrivial": nontrivial, "tags": sorted(set(tags)), "key": [text, case["inputs"]],
            "sample": {"text": text[:300], "inputs": [M.dec_inputs(e) for e in case["inputs"][:2]]}}


# --------------------------------------------------------------------------- arbitrary programs, fully predicted
@st.composite
def full_cases(draw):
    """2-4 arbitrary generated programs (conditionals, tuples, hostile strings, shared fields) that one long-lived evaluator is
    recompile()d through, with unrelated compiles in between"""
    from .. import common

    progs = []
    for _ in range(draw(st.integers(2, 4))):
        c = draw(gen.program_cases(min_splitters=1, max_splitters=3, n_inputs=(3, 6), tricky=draw(st.booleans()), max_depth=2,
                                   wkind=draw(st.sampled_from(["nice", "nice", "wide", "ints"])), max_groups=draw(st.sampled_from([4, 4, 12]))))
        if draw(st.integers(0, 3)) == 0:
            # the same label on several slices of a statement, incl. ==-equal values of different type (the predicted slice
            # decides the label, so labels need not be unique here)
            for r in M.returns(c["prog"]["body"]):
                pool = draw(st.sampled_from([["A", "B"], [1, 1.0, "1"], [0, -0.0, 0.0], ["x"]]))
                for g in r["groups"]:
                    if draw(st.booleans()):
                        g["lit"] = M.lit_of(draw(st.sampled_from(pool)))
        progs.append({"prog": c["prog"], "inputs": c["inputs"], "noise": c["noise"]})
        if draw(st.booleans()):
            # ... followed by a NEIGHBOUR of that program (other blanks / case / normal form in the salt or a string, ==-equal
            # literal of another type ...): a normalising checksum would skip exactly this recompile
            from .. import neighbours

            nbs = neighbours.neighbours(c["prog"])
            if nbs:
                _, a, b = nbs[draw(st.integers(0, len(nbs) - 1))]
                progs[-1] = {"prog": a, "inputs": c["inputs"], "noise": c["noise"]}
                progs.append({"prog": b, "inputs": c["inputs"], "noise": None})
    return {"programs": progs, "live": draw(st.sampled_from([True, True, False]))}


def fixed_full_cases():
    """every neighbour pair of three fixed programs, A -> B and B -> A through one live evaluator, fully predicted"""
    from .. import neighbours

    for prog, envs in neighbours.fixed_programs():
        inputs = [M.enc_inputs(e) for e in envs]
        for what, a, b in neighbours.neighbours(prog, None, 99):
            for x, y in ((a, b), (b, a)):
                yield {"programs": [{"prog": x, "inputs": inputs, "noise": None}, {"prog": y, "inputs": inputs, "noise": None}], "live": True}


def _expected(prog, env):
    """the result predicted from the documentation alone: route (reference interpreter), position (published scheme), slice"""
    from .. import refinterp

    route = refinterp.run(prog, env)
    if route[0] != "return":
        return ("unroutable",), None
    stmt = M.returns(prog["body"])[route[1]]
    salt = prog["salt"]["v"] if prog["salt"] else None
    fields = {n: env[n] for n in set(prog["splitters"])}
    k = refbucket.published_position(salt, fields)
    idx, ok, zone = refbucket.select([g["w"] for g in stmt["groups"]], k)
    return ("group", [M.lit_value(stmt["groups"][i]["lit"]) for i in ok]), k


def judge_full(case):
    from .. import common

    viol = []
    tags = ["full-programs", "live-evaluator" if case["live"] else "fresh-evaluators"]
    ev = None
    keys = []
    prev_text = None
    for item in case["programs"]:
        prog = item["prog"]
        prev_text, text = (text if ev is not None else None), M.render(prog)
        tags += common.pre_noise(item)
        try:
            if ev is None or not case["live"]:
                ev = sut.evaluator_mod().ExperimentEvaluator(text)
            else:
                if len(text) % 3 == 0:
                    common.refused_deploy(ev, text)
                if len(text) % 2 and prev_text is not None:
                    common.recycled_recompile(ev, prev_text, text)
                else:
                    ev.recompile(text)
        except Exception as e:
            viol.append("grammatical experiment does not compile: %s: %s | %s" % (type(e).__name__, e, text))
            common.reset_after_violation()
            break
        for enc in item["inputs"]:
            env = M.dec_inputs(enc)
            try:
                exp, k = _expected(prog, env)
            except TypeError:
                continue
            act = sut.call(ev, env)
            if exp[0] == "unroutable":
                ok = act[0] == "unroutable"
            else:
                ok = act[0] == "group" and any(sut.same_value(act[1], v) for v in exp[1])
            if not ok:
                viol.append("predicted from the published scheme: %r (grid point %s), evaluator gave %r | inputs=%r | %s%s"
                            % (exp, k, act, env, text, " | evaluator was recompile()d through %d programs" % len(keys) if case["live"] and keys else ""))
        keys.append(text)
        if viol:
            break
    if viol:
        common.reset_after_violation()
    return {"viol": viol[:4], "nontrivial": len(keys) >= 2, "tags": sorted(set(tags)), "key": [keys, case["live"]],
            "sample": {"programs": [k[:160] for k in keys[:2]], "live": case["live"]}}


def judge_proba(case):
    s = case["s"]
    try:
        u = sut.binning().deterministic_proba(s)
    except Exception as e:
        return {"viol": ["deterministic_proba(%r) raised %s: %s" % (s, type(e).__name__, e)], "tags": ["proba"]}
    k = refbucket.string_position(s)
    viol = []
    if not (isinstance(u, float) and 0.0 <= u < 1.0 and u * refbucket.GRID == k):
        viol.append("deterministic_proba(%r) = %r, published scheme gives %d/2^32" % (s, u, k))
    return {"viol": viol, "nontrivial": len(s) > 0, "tags": ["proba", "proba:non-ascii" if not s.isascii() else "proba:ascii"],
            "key": ["proba", s], "sample": {"deterministic_proba": s}}


def judge_case(record):
    c = record["case"]
    if "programs" in c:
        return judge_full(c)["viol"]
    return (judge_proba(c) if "s" in c else judge(c))["viol"]


def selftest():
    refbucket.selftest()
    assert refbucket.published_key("s", {"b": 1, "a": "x", "B": None}) == "sNonex1"


def fixed_cases():
    """keys at the edges of the scheme: the empty key, a key that is only a salt, falsy values, values that print alike"""
    for salt in (None, "", "s", " "):
        for names in (["uid"], ["uid", "Zeta"], ["b", "a", "B"]):
            body = M.ret([(M.lit_str("g%d" % j), "1") for j in range(16)])
            prog = M.program("exp", body, salt=salt, splitters=names)
            vals = ["", 0, 0.0, False, None, "0", " ", "None", -0.0, [], ()]
            inputs = [M.enc_inputs({n: v for n in names}) for v in vals if not isinstance(v, (list, tuple))]
            inputs += [M.enc_inputs({n: "" for n in names})] * 4  # the same empty key again and again
            yield {"prog": prog, "inputs": inputs}
    # field names that are Python builtins, with siblings that extend them (alphabetical order of the DECLARED names rules)
    for names in (["seg_9", "seg_10"], ["seg_10", "seg_9", "seg_100"], ["f2", "f10", "f1"], ["x1", "x02", "x3", "x10"], ["v1_2", "v1_10"], ["id", "id2"], ["id2", "id"], ["type", "typeB", "type_"], ["hash", "hashV2", "hash_"], ["id_", "id", "idx", "id2"], ["max", "max_", "min"],
                  ["len", "list", "dict", "object", "input", "format"]):
        body = M.ret([(M.lit_str("g%d" % j), "1") for j in range(32)])
        prog = M.program("exp", body, salt="s", splitters=names)
        yield {"prog": prog, "inputs": [M.enc_inputs({n: "%s-%d" % (n[::-1], j) for n in names}) for j in range(8)]}
    # a share boundary placed EXACTLY on the unit's own published position k (integer weights k : 2^32-k, exact in floats):
    # groups own [lo, hi), so the unit belongs to the second group; with k+1 : 2^32-k-1 to the first; zero / one-point groups
    for j in range(12):
        salt = [None, "checkout_v2", ""][j % 3]
        env = {"uid": "user-%d" % (1000 + j)}
        k = refbucket.published_position(salt, env)
        for ws in ([k, refbucket.GRID - k], [k + 1, refbucket.GRID - k - 1], [k, 1, refbucket.GRID - k - 1], [k, 0, refbucket.GRID - k],
                   [0, k, 0, refbucket.GRID - k], [k - 1, 1, 1, refbucket.GRID - k - 1]):
            if min(ws) < 0 or sum(ws) != refbucket.GRID:
                continue
            body = M.ret([(M.lit_str("g%d" % i), str(w)) for i, w in enumerate(ws)])
            yield {"prog": M.program("exp", body, salt=salt, splitters=["uid"]), "inputs": [M.enc_inputs(env)]}
    # keys that look like digests / tokens themselves (32 hex digits, UUIDs, base64): they are hashed like any other text
    import hashlib

    tokens = ["0" * 32, "f" * 32, hashlib.md5(b"user-1").hexdigest(), hashlib.md5(b"user-2").hexdigest(), "00000000000000000000000000000001", "0123456789abcdef0123456789abcdef",
              "6f1e2a9c-0b7d-11ee-be56-000000000001", "6F1E2A9C0B7D11EEBE56000000000001", hashlib.sha1(b"x").hexdigest(), hashlib.sha256(b"x").hexdigest(), "ZGVhZGJlZWY=", "0x1f", "deadbeef"]
    body = M.ret([(M.lit_str("g%d" % j), "1") for j in range(32)])
    for salt in (None, "", "s1", "ab12"):
        prog = M.program("exp", body, salt=salt, splitters=["uid"])
        yield {"prog": prog, "inputs": [M.enc_inputs({"uid": t}) for t in tokens] + [M.enc_inputs({"uid": t[4:]}) for t in tokens[:6]]}
    prog = M.program("exp", body, salt=None, splitters=["a", "b"])
    yield {"prog": prog, "inputs": [M.enc_inputs({"a": t[:16], "b": t[16:]}) for t in tokens[:6]]}
    # keys whose length sits on / next to a block size (64-byte MD5 blocks, 4 kB / 64 kB buffers): characters and bytes
    body = M.ret([(M.lit_str("g%d" % j), "1") for j in range(32)])
    for salt, ch in ((None, "x"), ("s", "x"), ("é", "é"), ("", "日")):
        lens = sorted({2 ** k + d for k in (6, 7, 9, 10, 12, 13, 14, 16) for d in (-1, 0, 1)} | {4096 * m for m in (2, 3, 4, 5, 8, 32)} | {55, 56, 57, 119, 120, 1 << 20})
        prog = M.program("exp", body, salt=salt, splitters=["uid"])
        yield {"prog": prog, "inputs": [M.enc_inputs({"uid": ch * (n - len(salt or ""))}) for n in lens]}
    prog = M.program("exp", body, salt="s", splitters=["a", "b"])
    yield {"prog": prog, "inputs": [M.enc_inputs({"a": "a" * (n // 2), "b": "b" * (n - n // 2 - 1)}) for n in (4096, 8192, 12288, 16384, 65536)]}
    # values that ARE str / int but print differently (str-mixin enum members, id wrappers, named constants): str() rules
    prog = M.program("exp", body, salt="s", splitters=["uid", "tier"])
    subs = [M.StrSub("gold", "Tier.GOLD"), M.StrSub("u1", "U1"), M.StrSub("", "empty"), M.StrSub("x", ""), M.IntSub(1, "Color.RED"), M.IntSub(0, "zero"), M.StrSub("gold", "gold")]
    yield {"prog": prog, "inputs": [M.enc_inputs({"uid": v, "tier": w}) for v in subs for w in ("gold", subs[0], 1)]}
    # every catalogue salt and every hostile-but-legal string, as the salt and as a splitter value
    for i, salt in enumerate(SALTS_ASCII + SALTS_UNI + gen.TRICKY_STRS):
        if any(c in salt for c in M.LINE_BREAKS) or ('"' in salt and "'" in salt):
            continue
        body = M.ret([(M.lit_str("g%d" % j), "1") for j in range(32)])
        prog = M.program("exp", body, salt=salt, splitters=["uid"], salt_q="'" if '"' in salt else '"')
        yield {"prog": prog, "inputs": [M.enc_inputs({"uid": v}) for v in ("u%d" % i, salt, i)]}


KNOWN_ANSWERS = [{"s": s} for s in list(refbucket.RFC1321) + ["unit-3373044025", "unit-5155129577", "unit-7940567911"]]


def run(ctx, rec):
    if ctx.shard == 0:
        runner.direct_run(ctx, rec, "known-answers", KNOWN_ANSWERS, judge_proba)
        # frozen extreme ids: positions 0, 0 and 2^32-1
        assert refbucket.string_position("unit-3373044025") == 0
        assert refbucket.string_position("unit-7940567911") == refbucket.GRID - 1
    if rec.violations:
        return
    if ctx.shard == 0:
        runner.direct_run(ctx, rec, "edge-keys", fixed_cases(), judge)
        if rec.violations:
            return
        # the same again in a host that has switched DEBUG logging on for everything (a legal ambient setting): assignments
        # must not depend on whether anybody is listening
        from .. import common

        with common.ambient(debug_logging=True):
            runner.direct_run(ctx, rec, "edge-keys-with-debug-logging-on", fixed_cases(), judge)
        if rec.violations:
            return
    runner.hyp_run(ctx, rec, "programs", cases(), judge, ctx.n(400, 2500))
    if rec.violations:
        return
    if ctx.shard == 0:
        runner.direct_run(ctx, rec, "all-neighbours-of-fixed-programs", fixed_full_cases(), judge_full)
        if rec.violations:
            return
    runner.hyp_run(ctx, rec, "full-programs", full_cases(), judge_full, ctx.n(150, 1200))
    if rec.violations:
        return
    runner.hyp_run(ctx, rec, "proba", st.builds(lambda s: {"s": s}, st.text(alphabet=st.characters(exclude_categories=["Cs"]), max_size=60)),
                   judge_proba, ctx.n(1500, 10000))
