"""C08 - comments and whitespace never change meaning."""
import random

from hypothesis import strategies as st

from .. import common, gen, gen_text, runner, sut
from .. import model as M

ID = "C08"
RULE = ("Generated programs (string literals include comment look-alikes such as \"http://x\" and \"/* x */\") are rendered "
        "to a token list; 3-5 trivia variants per program place generated sequences of whitespace (space, tab, LF, CRLF, FF, "
        "VT, NBSP), // comments and /* */ comments (content: quotes, keywords, //, *, /, braces, non-ASCII, line breaks) "
        "between every pair of tokens, before the first and after the last, including the fully minified and the "
        "one-token-per-line variant. Oracle: parse_source(variant) == parse_source(single-space rendering) (AST equality) and "
        "identical evaluator results on boundary inputs (random seeded identically when there is no splitter), also when the variant arrives through recompile() on a live evaluator that holds the plain rendering or the sibling text whose comment-ending line break is a blank. Non-trivial = "
        "variant containing at least one comment; distinct by variant text.")
RULE += (' Since round 6: a fixed list of directive- / file-name- / code-like comment bodies at the start, the end (with and without a final line break) and between tokens.')
RULE += (" Since rounds 14-15: comment sizes at 2^k-5..2^k+2; the unroutable error's message compared between variants; a slice of the catalogue under python -O / -OO.")
ASSUMPTIONS = [
    "no comment is placed inside the two-word tokens `not in` / `else if` (only their inner whitespace varies)",
    "block-comment bodies contain neither */ nor /* (the README claims nesting, C does not nest: documentation ambiguous)",
    "whitespace is removed only between tokens whose adjacent characters are not both word characters - except after a number, which ends where its digits end (18and, 3in)",
]
SHARDS = {"quick": 1, "thorough": 16}

STRS = gen.SIMPLE_STRS + ["http://x", "/* x */", "a // b", "*/", "/*", "it's", "//"]


@st.composite
def cases(draw):
    sk = draw(gen.programs(strs=STRS, max_depth=2, max_groups=3))
    prog, classes = sk["prog"], sk["classes"]
    # some group labels look like comments (kept unique by a suffix)
    for i, r in enumerate(M.returns(prog["body"])):
        for j, g in enumerate(r["groups"]):
            if g["lit"]["t"] == "str" and draw(st.integers(0, 3)) == 0:
                g["lit"] = M.lit_str(draw(st.sampled_from(["http://x", "/* x */", "a // b", "*/", "/*", "//"])) + " %d_%d" % (i, j), '"')
    toks = M.program_tokens(prog)
    variants = []
    for style in draw(st.sampled_from([[None, None, "min"], [None, "lines", None, "dense-comments"], [None, None, None],
                                       ["dense-comments", "min", None, None, "lines"], ["comment-line-before-salt", None],
                                       ["comment-line-before-salt", "min", None]])):
        text, tags = draw(gen_text.trivia_variant(toks, style))
        variants.append({"text": text, "tags": tags})
    iv = gen.interesting_values(prog, classes)
    inputs = [M.enc_inputs(draw(gen.inputs_for(prog, classes, iv))) for _ in range(draw(st.integers(2, 5)))]
    return {"prog": prog, "inputs": inputs, "variants": variants, "noise": draw(common.noise_strategy())}


def _sibling(text):
    """the text with the first line break that ends a // comment replaced by a blank (None if there is no such comment)"""
    i = 0
    n = len(text)
    while i < n:
        c = text[i]
        if c in "\"'":
            j = text.find(c, i + 1)
            if j < 0:
                return None
            i = j + 1
        elif text.startswith("/*", i):
            j = text.find("*/", i + 2)
            if j < 0:
                return None
            i = j + 2
        elif text.startswith("//", i):
            j = text.find("\n", i)
            if j < 0:
                return None
            return text[:j] + " " + text[j + 1:]
        else:
            i += 1
    return None


def _outcomes(ev, inputs, seeded):
    res = []
    for k, enc in enumerate(inputs):
        if seeded:
            random.seed(1000 + k)
        o = sut.call(ev, M.dec_inputs(enc))
        if o[0] == "unroutable":
            # what the caller is told when nothing routes is behaviour as well
            try:
                ev(**M.dec_inputs(enc))
            except Exception as e:
                o = ("unroutable", repr(e.args)[:300])
        res.append(o)
    return res


def judge(case):
    prog = case["prog"]
    base = M.render(prog)
    W = sut.wrappers()
    tags = set()
    viol = []
    try:
        ast0 = W.parse_source(base)
    except Exception as e:
        return {"viol": ["base text does not parse: %s %s | %s" % (type(e).__name__, e, base)], "tags": []}
    r0 = sut.compile_text(base)
    if ast0 is None or r0[0] != "ok":
        return {"viol": ["base text does not compile: %r | %s" % (r0[1:], base)], "tags": []}
    seeded = not prog["splitters"]
    out0 = _outcomes(r0[1], case["inputs"], seeded)
    nt_keys = []
    for vi, v in enumerate(case["variants"]):
        text = v["text"]
        tags.update(v["tags"])
        if vi == 1:
            tags.update(common.pre_noise(case))  # an unrelated odd text is compiled between two variants
        has_comment = any(t in v["tags"] for t in ("block-comment", "line-comment"))
        if has_comment:
            nt_keys.append(text)
        try:
            ast1 = W.parse_source(text)
        except Exception as e:
            viol.append("trivia variant does not parse (%s: %s) | variant=%r | base=%s" % (type(e).__name__, e, text, base))
            continue
        if ast1 != ast0:
            viol.append("trivia changed the parsed experiment | variant=%r | base=%s | ast(variant)=%r" % (text, base, ast1))
            continue
        r1 = sut.compile_text(text)
        if r1[0] != "ok":
            viol.append("trivia variant does not compile: %r | variant=%r" % (r1[1:], text))
            continue
        out1 = _outcomes(r1[1], case["inputs"], seeded)
        for enc, o in zip(case["inputs"], out1):
            msg = common.check_routing(prog, M.dec_inputs(enc), o)  # independent oracle: the reference interpreter's route
            if msg:
                viol.append("trivia variant: %s | variant=%r" % (msg, text))
                break
        if out1 != out0:
            viol.append("trivia changed evaluation results %r -> %r | variant=%r | base=%s" % (out0, out1, text, base))
            continue
        # the same holds when the variant arrives through recompile() on a live evaluator that holds (a) another variant,
        # (b) the sibling text in which the line break ending a // comment is a blank (a different program, or invalid)
        holders = [("the single-space rendering", base)]
        sib = _sibling(text)
        if sib is not None:
            holders.append(("its sibling with the comment's line break replaced by a blank", sib))
            tags.add("recompile-from-sibling")
        for what, held in holders:
            rh = sut.compile_text(held)
            if rh[0] != "ok":
                continue
            try:
                rh[1].recompile(text)
            except Exception as e:
                viol.append("recompile(variant) raised %s: %s on an evaluator holding %s | variant=%r" % (type(e).__name__, e, what, text))
                continue
            out2 = _outcomes(rh[1], case["inputs"], seeded)
            if out2 != out0:
                viol.append("after recompile(variant) on an evaluator holding %s the results are %r instead of %r | held=%r | variant=%r"
                            % (what, out2, out0, held, text))
    if viol and case.get("noise"):
        viol = [m + " | an unrelated text was compiled in between: %r" % case["noise"] for m in viol]
        common.reset_after_violation()
    return {"viol": viol[:4], "nontrivial": bool(nt_keys), "tags": sorted(tags), "key": nt_keys or [base],
            "sample": {"base": base[:200], "variant": (case["variants"][0]["text"])[:300]}}


def judge_case(record):
    part = record.get("part", "")
    if part.startswith("python-"):  # found under an optimised interpreter: replay there
        return runner.child_judge("C08", [record["case"]], py_flags=(part[len("python"):],))["results"][0]
    return judge(record["case"])["viol"]


COMMENT_BODIES = ["source: experiments/checkout_button.pyab", "x.pyab", ".pyab", "file.py", "/etc/passwd", "-*- coding: latin-1 -*-",
                  "vim: set ft=pyab:", "noqa", "fmt: off", "fmt: skip", "type: ignore", "#!/usr/bin/env pyab", "TODO(me): fix", "@author x",
                  "%s %d {0} {uid}", "\\", "\\n", "C:\\path\\t.pyab", "pragma: no cover", "<<<<<<< HEAD", "=======", "-----", ">>>>>>> theirs", "||||||| base", "=========================", "<<<<<<<<<<", "#######", "~~~~~~~", "+++++++", "@@ -1,3 +1,4 @@",
                  'return "Z" weighted 100', "}", "{", "} }", "def other {", "salt: 'x'", "splitters: a", "'", '"', "'''", '"""', "é日本",
                  "\t", "", " ", "*", "**", "/", "//", "///", "\\*", "*\\/", "#", "# python", ";", "-- sql", "<!-- x -->", "\x00", "\x7f", "\ufeff",
                  "x" * 3000] + ["x" * n for k in (10, 12, 13, 14, 16) for n in range(2 ** k - 5, 2 ** k + 3)] + ["é" * 4094, "日" * 8190, " " * 4095]


def fixed_cases():
    """comment bodies that look like file names, editor / linter directives, merge markers, other languages' comments or
    pieces of an experiment - as the first thing in the text, the last thing (with and without a final line break), and
    between tokens"""
    I, L = M.ident, M.lit_int
    prog = M.program("exp", M.if_([(M.cmp_(I("a"), ">=", L("2")), M.ret([(M.lit_str("A"), "1"), (M.lit_str("B"), "3")])),
                                   (M.cmp_(I("a"), ">=", L("1")), M.ret([(M.lit_str("C"), "1"), (M.lit_str("http://d"), "1")]))], None),
                     salt="s", splitters=["uid"])  # a == 0 is not routed: the error the caller gets is compared too
    toks = [t for _, t in M.program_tokens(prog)]
    base = " ".join(toks)
    inputs = [M.enc_inputs({"uid": "u%d" % i, "a": i % 4}) for i in range(8)]
    for body in COMMENT_BODIES:
        line = "//" + body
        variants = [(line + "\n" + base, ["line-comment", "trivia-before-first-token"]),
                    (base + " " + line, ["line-comment", "trivia-after-last-token", "line-comment-ends-at-EOF"]),
                    (base + "\n" + line + "\n", ["line-comment", "trivia-after-last-token"]),
                    (base + line + "  ", ["line-comment", "trivia-after-last-token", "line-comment-ends-at-EOF"]),
                    (" ".join(toks[:4]) + " " + line + "\n" + " ".join(toks[4:]), ["line-comment"]),
                    (" ".join(toks[:-1]) + line + "\n" + toks[-1], ["line-comment"])]
        if "*/" not in body and "/*" not in body and not body.endswith("*") and not body.startswith("/"):
            blk = "/*" + body + "*/"
            own = "/*\n" + body + "\n" + body + "\n*/"  # the body on lines of its own (an underline ======= , a conflict marker, a banner)
            variants += [(own + "\n" + base, ["block-comment", "block-comment-multiline", "trivia-before-first-token"]),
                         (" ".join(toks[:9]) + "\n" + own + "\n" + " ".join(toks[9:]), ["block-comment", "block-comment-multiline"])]
            variants += [(blk + base, ["block-comment", "trivia-before-first-token"]), (base + blk, ["block-comment", "trivia-after-last-token"]),
                         (base + "\n" + blk + "\n", ["block-comment", "trivia-after-last-token"]),
                         (" ".join(toks[:9]) + blk + " ".join(toks[9:]), ["block-comment"])]
        yield {"prog": prog, "inputs": inputs, "variants": [{"text": t, "tags": g} for t, g in variants], "noise": None}
    # any NUMBER of comments: thousands in one gap, dozens in every gap, thousands of lines in one comment
    many = [("/* c */" * 2500).join([" ".join(toks[:5]), " ".join(toks[5:])]), (" /* c */ /**/ " * 40).join(toks), ("// c\n" * 3000) + base,
            base + ("\n// c" * 3000), ("/*" + "line\n" * 5000 + "*/").join([" ".join(toks[:9]), " ".join(toks[9:])]),
            (" /* a */ // b\n /* c\n */ " * 25).join(toks),
            # far more trivia than program: 100 kB of blanks, a 200 kB banner, 1500 change-log lines
            base + " " * 100000, "/*" + "=" * 200000 + "*/\n" + base, "".join("// 2024-%02d-%02d changed the weights of arm %d\n" % (1 + i % 12, 1 + i % 28, i) for i in range(1500)) + base,
            ("\n" * 70000).join([" ".join(toks[:7]), " ".join(toks[7:])])]
    yield {"prog": prog, "inputs": inputs, "variants": [{"text": t, "tags": ["block-comment", "many-comments"]} for t in many], "noise": None}
    # every blank removed that can be removed: a number is directly followed by the next word (2and, 1.5or, 3in, 1weighted ...)
    L, F, T = M.lit_int, M.lit_float, M.tup
    pred = M.or_(M.and_(M.cmp_(I("a"), ">=", L("2")), M.cmp_(L("3"), "in", T([I("a"), L("2")]))),
                 M.or_(M.cmp_(I("a"), "<", F("1.5")), M.and_(M.cmp_(I("a"), "==", L("7")), M.not_(M.cmp_(I("a"), "not in", T([L("7")]))))))
    prog2 = M.program("exp", M.if_([(pred, M.ret([(L("1"), "2"), (F("2.5"), "1")])), (M.cmp_(I("a"), "!=", L("0")), M.ret([(M.lit_str("B"), "1")]))],
                                   M.ret([(L("0"), "1"), (M.lit_str("C"), "1.5")])), salt="s", splitters=["uid"])
    toks2 = M.program_tokens(prog2)
    tight = gen_text.make_variant(bytes(16 + 14 * len(toks2)), toks2, "min")[0]
    yield {"prog": prog2, "inputs": inputs, "variants": [{"text": tight, "tags": ["no-optional-whitespace"]},
                                                          {"text": tight.replace("{", "{/**/").replace("and", "and/*x*/"), "tags": ["block-comment", "no-optional-whitespace"]}], "noise": None}


def run(ctx, rec):
    if ctx.shard == 0:
        runner.direct_run(ctx, rec, "fixed-comment-contents", fixed_cases(), judge)
        if rec.violations:
            return
    if ctx.shard == 0:
        # the meaning of trivia does not depend on how the interpreter was started: python -O / -OO (assert statements and
        # __debug__ blocks compiled out) on a slice of the fixed catalogue
        import itertools

        sl = list(itertools.islice(fixed_cases(), 0, 66, 11)) + list(fixed_cases())[-2:]
        for flags in (("-O",), ("-OO",)):
            res = runner.child_judge("C08", sl, py_flags=flags)
            rec.count("child-interpreter:" + "".join(flags), len(sl))
            rec.evaluations += len(sl)
            if res["flags"]["optimize"] < 1:
                raise runner.HarnessError("child did not run optimised")
            for c, msgs in zip(sl, res["results"]):
                if msgs:
                    rec.violation("python%s" % "".join(flags), c, ["under python %s: %s" % ("".join(flags), m) for m in msgs])
                    return
    runner.hyp_run(ctx, rec, "trivia", cases(), judge, ctx.n(400, 2500))
