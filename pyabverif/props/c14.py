"""C14 - generated Python source is equivalent to the in-memory evaluator."""
import random

from hypothesis import strategies as st

from .. import common, gen, gen_text, runner, sut
from .. import model as M

ID = "C14"
RULE = ("Generated programs (one third written with generated whitespace / comments incl. lone CR, FF) x both layouts of generate_code (helper nested / helper exposed at module level) x boundary "
        "inputs (plus inputs with a missing field and unroutable inputs). Oracle: the text compiles stand-alone in a fresh "
        "namespace, defines a callable named after the experiment (and, exposed layout, the helper at module level); for "
        "every input the same group (value and type) or the same exception class as ExperimentEvaluator(text), with random "
        "seeded identically on both sides when the experiment has no splitter. Non-trivial = program with a conditional and "
        "a salt or splitters, both layouts executed; distinct by (text, layout).")
RULE += (' Since rounds 6-7: unprintable / unhashable inputs (ints beyond the digit limit, lone surrogates), two faults at once, values whose every use raises a bare exception.')
RULE += (' Since rounds 14-15: evaluator and generated module compared under extra keyword arguments named almost like the fields.')
ASSUMPTIONS = [
    "the generated text may import from pyab_experiment (it does so by design); 'stand-alone' means exec in an empty namespace",
]
SHARDS = {"quick": 1, "thorough": 16}


@st.composite
def cases(draw):
    c = draw(st.one_of(gen.program_cases(n_inputs=(3, 6), max_depth=3, tricky=True), gen.program_cases(n_inputs=(3, 6), max_depth=3),
                       gen.program_cases(n_inputs=(3, 6), pool=gen.ADVERSARIAL_POOL, max_depth=2),
                       gen.program_cases(n_inputs=(3, 6), pool=gen.ADVERSARIAL_POOL[45:], max_depth=1, max_fields=3), gen.big_programs()))
    if draw(st.integers(0, 2)) == 0:
        # the source the user wrote: same tokens with generated whitespace / comments (CR, FF, // and /* */ included)
        c["text"] = draw(gen_text.trivia_variant(M.program_tokens(c["prog"])))[0]
    if draw(st.integers(0, 7)) == 0:
        # a trailing comment the author never closed: today's lexer accepts it, so generate_code must cope with it as well
        c["text"] = (c.get("text") or M.render(c["prog"])) + draw(st.sampled_from([" /* TODO", "\n/* open", " /*"]))
    fields = list(c["inputs"][0].keys()) if c["inputs"] else []
    if fields and draw(st.booleans()):
        drop = draw(st.sampled_from(fields))
        c["inputs"].append({k: v for k, v in c["inputs"][0].items() if k != drop})
    nums = [f for f, cl in (c.get("classes") or {}).items() if cl == "num"]
    if nums and c["inputs"] and draw(st.integers(0, 2)) == 0:
        # a NaN in a numeric field: `not x > 4` and `x <= 4` are different questions; both sides must still agree
        f = draw(st.sampled_from(nums))
        c["inputs"].append(dict(c["inputs"][0], **{f: M.enc(float("nan"))}))
        c["inputs"].append(dict(c["inputs"][-2 if len(c["inputs"]) > 1 else 0], **{f: M.enc(float("inf"))}))
    if c["inputs"] and draw(st.integers(0, 2)) == 0:
        # values that cannot be turned into text / bytes: an int beyond CPython's int->str limit (as an unrelated extra field,
        # or in a field that is only compared), a str with a lone surrogate (in any field, so also in a splitter, where the
        # key cannot be hashed): whatever the evaluator does - group or error class - the generated module must do as well
        base = c["inputs"][0]
        c["inputs"].append(dict(base, zz_unrelated=M.enc(draw(st.sampled_from([10 ** 5000, -(10 ** 4400)])))))
        if nums:
            c["inputs"].append(dict(base, **{draw(st.sampled_from(nums)): M.enc(10 ** 5000)}))
        if base:
            f = draw(st.sampled_from(sorted(base)))
            c["inputs"].append(dict(base, **{f: M.enc("user-\udcff-17")}))
        for f in c["prog"]["splitters"] or []:
            if f in base:
                c["inputs"].append(dict(base, **{f: M.enc(draw(st.sampled_from(["\ud800", "a\udfffb", 10 ** 5000])))}))
                # ... and the same in EVERY other input (some are unroutable, some lack a field): two things go wrong at once,
                # and both sides must report the same one
                bad = draw(st.sampled_from([M.enc(10 ** 5000), M.enc("k\udcffk"), {"t": "bomb", "v": "NotImplementedError"}]))
                c["inputs"] += [dict(i, **{f: bad}) for i in c["inputs"][:6] if f in i]
                break
        # text handed over as bytes / bytearray (as message queues and key-value stores deliver it): a different value from the str
        for f in sorted(base):
            v = M.dec(base[f])
            if isinstance(v, str) and v.isascii():
                c["inputs"].append(dict(base, **{f: M.enc(v.encode("ascii"))}))
                c["inputs"].append(dict(base, **{f: M.enc(bytearray(v.encode("ascii")))}))
        # ONE plain object (equal only to itself) in several fields at once, and a value that cannot be copied (a lock): the
        # evaluator must look at the very objects it was given, as the generated function does
        if len(base) >= 2:
            fs = sorted(base)
            c["inputs"].append(dict(base, **{fs[0]: {"t": "handle", "v": 1}, fs[1]: {"t": "handle", "v": 1}}))
            c["inputs"].append(dict(base, **{fs[0]: {"t": "handle", "v": 1}, fs[1]: {"t": "list", "v": [{"t": "handle", "v": 1}, {"t": "handle", "v": 2}]}}))
        if base:
            c["inputs"].append(dict(base, **{sorted(base)[-1]: {"t": "lock"}}))
            c["inputs"].append(dict(base, zz_unrelated={"t": "lock"}))
        # a value of the WRONG type (numeric text where a number is compared, a number where text is compared, None) and exact
        # numbers that are no builtin floats (Decimal, Fraction): whatever the evaluator does with them - a group, an error class -
        # the generated module does too
        import decimal
        import fractions

        for f, cl in sorted((c.get("classes") or {}).items()):
            if f in base and cl in ("num", "str"):
                wrong = ["30", "000042", " 7", "1.50", None] if cl == "num" else [7, 0.5, None, True]
                c["inputs"].append(dict(base, **{f: M.enc(draw(st.sampled_from(wrong)))}))
                if cl == "num":
                    c["inputs"].append(dict(base, **{f: M.enc(draw(st.sampled_from([decimal.Decimal("0.1"), decimal.Decimal("7.10"), fractions.Fraction(1, 10),
                                                                                   fractions.Fraction(1, 3), decimal.Decimal(9007199254740993)])))}))
        for f in c["prog"]["splitters"] or []:
            if f in base:
                c["inputs"].append(dict(base, **{f: M.enc(draw(st.sampled_from([decimal.Decimal("7.10"), fractions.Fraction(1, 3), decimal.Decimal("1E+2"), "000042", " 7"])))}))
        # a value whose every use raises an exception without arguments, in any one field
        if base:
            f = draw(st.sampled_from(sorted(base)))
            c["inputs"].append(dict(base, **{f: M.enc(M.Bomb(draw(st.sampled_from(sorted(M.Bomb.EXCS)))))}))
            c["inputs"].append(dict(base, zz_unrelated=M.enc(M.Bomb("KeyError"))))
    return c


def _call(fn, env, seeded, k):
    if seeded:
        random.seed(7000 + k)
    try:
        return ("group", fn(**env))
    except Exception as e:
        return ("error", type(e).__name__)


def judge(case):
    prog = case["prog"]
    text = case.get("text") or M.render(prog)
    tags = common.shape_tags(prog)
    if "text" in case:
        tags.append("source-with-trivia")
        if "\r" in case["text"].replace("\r\n", ""):
            tags.append("source-with-lone-CR")
    res = sut.compile_text(text)
    if res[0] != "ok":
        if text.rstrip().endswith(("/* TODO", "/* open", "/*")):
            # whether an unterminated trailing comment is accepted is not C14's business (documentation silent)
            return {"viol": [], "nontrivial": False, "tags": tags + ["unterminated-comment-rejected"], "skipped": "unterminated-comment"}
        return {"viol": ["does not compile: %s %s | %s" % (res[1], res[2], text)], "tags": tags}
    ev = res[1]
    seeded = not prog["splitters"]
    viol = []
    W = sut.wrappers()
    for expose in (False, True):
        layout = "exposed" if expose else "nested"
        try:
            code = W.generate_code(text, expose_internal_fn=expose)
        except Exception as e:
            viol.append("generate_code(%s) raised %s: %s | %s" % (layout, type(e).__name__, str(e)[:200], text))
            continue
        ns = {}
        try:
            exec(compile(code, "<generated:%s>" % layout, "exec"), ns)
        except Exception as e:
            viol.append("generated text (%s layout) is not valid stand-alone Python: %s: %s | %s" % (layout, type(e).__name__, e, text))
            continue
        fn = ns.get(prog["name"])
        if not callable(fn):
            viol.append("generated text (%s layout) defines no callable named %r | %s" % (layout, prog["name"], text))
            continue
        if expose and not callable(ns.get("choose_experiment_variant")) and prog["name"] != "choose_experiment_variant":
            viol.append("exposed layout does not define the helper at module level | %s" % text)
        if not expose and "choose_experiment_variant" in ns and prog["name"] != "choose_experiment_variant":
            viol.append("nested layout leaks the helper to module level | %s" % text)
        for k, enc in enumerate(case["inputs"]):
            env = M.dec_inputs(enc)
            a = _call(ev, env, seeded, k)
            b = _call(fn, env, seeded, k)
            same = a[0] == b[0] and (sut.same_value(a[1], b[1]) if a[0] == "group" else a[1] == b[1])
            if same and b[0] == "group" and set(env) >= set(M.all_fields(prog)):
                # independent of anything both sides might share (a process-wide cache): the reference interpreter's route
                msg = common.check_routing(prog, env, b)
                if msg:
                    viol.append("%s layout: generated function: %s | inputs=%r | %s" % (layout, msg, common.short_env(env), text))
            if not same:
                viol.append("%s layout: generated function gave %r, evaluator gave %r | inputs=%r | %s" % (layout, b, a, common.short_env(env), text))
            elif k < 2 and not seeded:
                # the same call with further keyword arguments the experiment does not read (a whole request splatted in), some
                # of them named almost like its fields: both sides treat them alike
                more = dict(env)
                for n in list(env):
                    for x in (n + "s", "p" + n, n + "_", n[:-1] if len(n) > 2 else n + "x", n + "2"):
                        if x not in M.all_fields(prog) and x.isidentifier() and x not in gen.K1_NAMES:
                            more[x] = "other"
                more.update({"request_id": "r-1", "context": {"a": 1}})
                a2, b2 = _call(ev, more, seeded, k), _call(fn, more, seeded, k)
                if not (a2[0] == b2[0] and (sut.same_value(a2[1], b2[1]) if a2[0] == "group" else a2[1] == b2[1])):
                    viol.append("%s layout: with extra keyword arguments %r the generated function gave %r, the evaluator %r | inputs=%r | %s"
                                % (layout, sorted(set(more) - set(env)), b2, a2, common.short_env(env), text))
    # rendering is repeatable: one generator asked twice, and another generator on the same parsed AST, emit the same text
    try:
        _, same = common.rendered_again(text, prog["name"])
        for what, ok in same.items():
            if not ok:
                viol.append("code generation is not repeatable (%s is false) | %s" % (what, text))
    except Exception as e:
        if not viol:
            viol.append("rendering the same AST again failed: %s: %s | %s" % (type(e).__name__, str(e)[:200], text))
    nt = prog["body"]["k"] == "if" and (prog["salt"] is not None or bool(prog["splitters"]))
    return {"viol": viol[:5], "nontrivial": nt, "tags": tags, "key": text, "sample": {"text": text[:300]}}


def child_entry(case):
    """(runs in a child interpreter with another hash seed) the module texts for a program, both layouts"""
    text = case.get("text") or M.render(case["prog"])
    W = sut.wrappers()
    return {"nested": W.generate_code(text, expose_internal_fn=False), "exposed": W.generate_code(text, expose_internal_fn=True)}


def judge_foreign(case, texts, where):
    """module text generated in ANOTHER interpreter process (build time) vs the evaluator built here (run time)"""
    prog = case["prog"]
    text = M.render(prog)
    res = sut.compile_text(text)
    if res[0] != "ok":
        return ["does not compile: %s %s | %s" % (res[1], res[2], text)]
    viol = []
    for layout in ("nested", "exposed"):
        ns = {}
        try:
            exec(compile(texts[layout], "<generated-elsewhere:%s>" % layout, "exec"), ns)
            fn = ns[prog["name"]]
        except Exception as e:
            viol.append("text generated %s (%s layout) is not usable here: %s: %s | %s" % (where, layout, type(e).__name__, e, text))
            continue
        for k, enc in enumerate(case["inputs"]):
            env = M.dec_inputs(enc)
            a = _call(res[1], env, False, k)
            b = _call(fn, env, False, k)
            if not (a[0] == b[0] and (sut.same_value(a[1], b[1]) if a[0] == "group" else a[1] == b[1])):
                viol.append("%s layout, text generated %s: generated function gave %r, the evaluator built in this process gave %r | "
                            "inputs=%r | %s" % (layout, where, b, a, env, text))
                break
    return viol


def foreign_cases():
    R = lambda tag: M.ret([(M.lit_str("%s%d" % (tag, j)), "1") for j in range(16)])  # noqa: E731
    out = []
    for i, names in enumerate([["user_id", "country"], ["b", "a"], ["Zeta", "alpha", "Beta"], ["uid", "tenant", "region", "plan"],
                               ["k9", "k10", "k1"], ["x", "y", "z", "w", "v"]]):
        body = R("g") if i % 2 else M.if_([(M.cmp_(M.ident(names[0]), "!=", M.lit_str("nobody")), R("p"))], R("q"))
        prog = M.program("exp%d" % i, body, salt=[None, "s", "é"][i % 3], splitters=names)
        inputs = [M.enc_inputs({n: "%s-%d" % (n, j) for n in names}) for j in range(12)]
        out.append({"prog": prog, "inputs": inputs})
    # experiments with plain tuple literals (no field inside): built here AFTER this process has compiled many other experiments
    # (tuples with fields among them), generated in fresh child interpreters - what one experiment needs does not depend on what
    # else a process has compiled
    T, S, L, I = M.tup, M.lit_str, M.lit_int, M.ident
    for i, pred in enumerate([M.cmp_(I("country"), "in", T([S("FR"), S("DE")])), M.cmp_(I("tier"), "not in", T([L("1"), L("2"), T([L("3"), L("4")])])),
                              M.cmp_(T([L("1"), L("2")]), "!=", I("pair")), M.and_(M.cmp_(I("country"), "in", T([S("US")])), M.cmp_(I("tier"), "==", T([L("1")])))]):
        fields = sorted({c[side]["name"] for c in M.cmps(pred) for side in ("l", "r") if c[side]["k"] == "id"})
        prog = M.program("tup%d" % i, M.if_([(pred, R("p"))], R("q")), salt="t", splitters=["uid"])
        inputs = [M.enc_inputs(dict({f: v for f in fields}, uid="u%d" % j)) for j, v in enumerate(["FR", 1, (1, 2), (1,), "US", 3, (3, 4), "x"])]
        out.append({"prog": prog, "inputs": inputs})
    return out


def judge_case(record):
    if "progs" in record["case"]:
        return judge_shared_namespace(record["case"])["viol"]
    return judge(record["case"])["viol"]


def known_ids():
    for k in runner.known_for("C14"):
        if k.get("id") == "K1":
            return set(k.get("identifiers", []))
    return set()


def known_filter(case, viol):
    if isinstance(case, dict) and "prog" in case and case["prog"]["name"] in known_ids():
        return "K1"
    return None


def k1_probes():
    R = M.ret([(M.lit_str("A"), "1"), (M.lit_str("B"), "1")])
    for n in ["partial", "deterministic_choice", "str", "map", "choose_experiment_variant"]:
        yield {"prog": M.program(n, R, splitters=["uid"]), "inputs": [M.enc_inputs({"uid": "u1"})]}
    yield {"prog": M.program("ExperimentConditionalFailedError", M.if_([(M.cmp_(M.ident("x"), "==", M.lit_int("1")), R)], None), splitters=["uid"]),
           "inputs": [M.enc_inputs({"uid": "u1", "x": 2})]}


def judge_shared_namespace(case):
    """several modules generated with DEFAULT arguments, executed into ONE namespace (one experiments.py holding them all): each
    function still behaves like the evaluator of its own source"""
    W = sut.wrappers()
    ns = {}
    viol = []
    texts = [M.render(p) for p in case["progs"]]
    for t in texts:
        try:
            exec(compile(W.generate_code(t), "<experiments.py>", "exec"), ns)
        except Exception as e:
            return {"viol": ["generate_code with default arguments failed: %s: %s | %s" % (type(e).__name__, e, t)], "tags": ["shared-namespace"], "key": texts}
    for p, t in zip(case["progs"], texts):
        res = sut.compile_text(t)
        fn = ns.get(p["name"])
        if res[0] != "ok" or not callable(fn):
            viol.append("%s: evaluator %r / function %r" % (p["name"], res[:2], fn))
            continue
        for k, enc in enumerate(case["inputs"]):
            env = M.dec_inputs(enc)
            a, b = _call(res[1], env, False, k), _call(fn, env, False, k)
            if a != b:
                viol.append("several default-generated modules in one namespace: %s gives %r, its evaluator %r | inputs=%r" % (p["name"], b, a, env))
                break
    return {"viol": viol[:3], "nontrivial": True, "tags": ["shared-namespace"], "key": texts, "sample": {"modules_in_one_namespace": [p["name"] for p in case["progs"]]}}


def shared_namespace_cases():
    G = lambda tag, ws: M.ret([(M.lit_str("%s%d" % (tag, j)), w) for j, w in enumerate(ws)])  # noqa: E731
    progs = [M.program("banner", G("b", ["1", "9"]), salt="banner", splitters=["uid"]),
             M.program("checkout", M.if_([(M.cmp_(M.ident("plan"), "==", M.lit_str("pro")), G("p", ["2", "1", "1"]))], G("f", ["1", "1"])), salt="checkout", splitters=["uid"]),
             M.program("ranker", G("r", ["5", "95"]), salt=None, splitters=["uid", "plan"])]
    inputs = [M.enc_inputs({"uid": "u%d" % j, "plan": ["pro", "free"][j % 2]}) for j in range(40)]
    yield {"progs": progs, "inputs": inputs}
    yield {"progs": progs[::-1], "inputs": inputs}


def duplicate_return_programs():
    """chains in which NON-adjacent links return identical statements, with inputs that satisfy the link in between as well"""
    I, L, S = M.ident, M.lit_int, M.lit_str
    Rr = M.ret([(S("same"), "1"), (S("same2"), "3")])
    Ss = M.ret([(S("between"), "1")])
    T = M.ret([(S("rest"), "1")])
    for body in (M.if_([(M.cmp_(I("a"), "==", L("1")), Rr), (M.cmp_(I("b"), "==", L("1")), Ss), (M.cmp_(I("c"), "==", L("1")), Rr)], T),
                 M.if_([(M.cmp_(I("a"), "==", L("1")), Rr), (M.cmp_(I("b"), "==", L("1")), Ss), (M.cmp_(I("c"), "==", L("1")), Rr), (M.cmp_(I("b"), "==", L("2")), Ss)], None),
                 M.if_([(M.cmp_(I("a"), ">", L("5")), T), (M.cmp_(I("b"), ">", L("5")), Rr), (M.cmp_(I("c"), ">", L("5")), T)], Rr)):
        envs = [{"uid": "u%d" % j, "a": a, "b": b, "c": c} for j, (a, b, c) in enumerate([(0, 1, 1), (1, 1, 1), (0, 0, 1), (0, 2, 1), (9, 9, 9), (0, 9, 9), (0, 0, 9), (0, 0, 0), (1, 0, 0)])]
        yield {"prog": M.program("exp", body, salt="s", splitters=["uid"]), "inputs": [M.enc_inputs(e) for e in envs]}


def own_fixed_programs():
    """literals at the edge of what Python can hold (a decimal too large for a double, an integer of 4300 digits, -0.0): whatever
    the evaluator makes of them - a group or an error - the generated module must make the same"""
    I, S = M.ident, M.lit_str
    huge = M.lit_float("1" + "0" * 320 + ".0")
    tiny = M.lit_float("0." + "0" * 400 + "1")
    big = M.lit_int("7" * 4300)
    R = M.ret([(S("a"), "1"), (S("b"), "1")])
    envs = [M.enc_inputs({"uid": "u%d" % j, "x": v}) for j, v in enumerate([0, 1.5, float("inf"), float("nan"), 10 ** 400, "s", None])]
    for body in (M.if_([(M.cmp_(I("x"), "<", huge), R)], M.ret([(S("c"), "1")])), M.if_([(M.cmp_(huge, "==", I("x")), R)], None),
                 M.ret([(huge, "1"), (S("z"), "1")]), M.ret([(S("a"), "1" + "0" * 320 + ".0"), (S("b"), "1")]),
                 M.if_([(M.cmp_(I("x"), "in", M.tup([huge, M.lit_float("0.0", True), tiny])), R)], M.ret([(M.lit_float("0.0", True), "1")])),
                 M.if_([(M.cmp_(I("x"), ">=", big), R)], M.ret([(big, "1")])), M.ret([(tiny, "0." + "0" * 400 + "1"), (S("b"), "0")])):
        yield {"prog": M.program("exp", body, salt="s", splitters=["uid"]), "inputs": envs}


def run(ctx, rec):
    if ctx.shard == 0:
        still = []
        for probe in k1_probes():
            v = judge(probe)
            if v["viol"]:
                if known_filter(probe, v["viol"]):
                    still.append(probe["prog"]["name"])
                else:
                    rec.violation("k1-probe", probe, v["viol"])
                    return
        if still:
            rec.known_finding("K1", "an experiment named like a global of the generated module makes the stand-alone text diverge "
                              "from the evaluator (still failing for: %s)" % ", ".join(still))
    if ctx.shard == 0:
        from . import c07

        runner.direct_run(ctx, rec, "fixed-shapes", c07.fixed_programs(), judge, known_filter=known_filter)
        if rec.violations:
            return
        runner.direct_run(ctx, rec, "edge-literals", own_fixed_programs(), judge, known_filter=known_filter)
        if rec.violations:
            return
        runner.direct_run(ctx, rec, "non-adjacent-links-with-identical-statements", duplicate_return_programs(), judge)
        if rec.violations:
            return
        runner.direct_run(ctx, rec, "default-generated-modules-in-one-namespace", shared_namespace_cases(), judge_shared_namespace)
        if rec.violations:
            return
    if ctx.shard == 0:
        # build-time / run-time split: the text is generated in child interpreters with other hash seeds, executed here
        fc = foreign_cases()
        for seed_ in ("1", "2", "3", "4"):
            res = runner.child_judge("C14", fc, env_extra={"PYTHONHASHSEED": seed_})
            for c, texts in zip(fc, res["results"]):
                rec.evaluations += 1
                rec.count("generated-in-another-process")
                if isinstance(texts, list):
                    rec.violation("generated-in-another-process", c, texts)
                    return
                v = judge_foreign(c, texts, "in a process with PYTHONHASHSEED=%s" % seed_)
                if v:
                    rec.violation("generated-in-another-process", c, v)
                    return
    runner.hyp_run(ctx, rec, "programs-x-layouts", cases(), judge, ctx.n(250, 1500), known_filter=known_filter)
