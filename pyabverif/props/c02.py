"""C02 - compiled routing equals the DSL's if / else-if / else and operator semantics."""
import itertools

from hypothesis import strategies as st

from .. import common, gen, refinterp, runner, sut
from .. import model as M

ID = "C02"
RULE = ("Typed grammar-directed programs (all 8 comparison operators in ident-lit / lit-ident / ident-ident "
        "orientation, not/and/or trees with minimal and redundant parentheses, else-if chains, nesting, missing "
        "else) evaluated on inputs at and next to every literal boundary, plus an enumerated catalogue "
        "(operator x orientation x boundary triple; all boolean trees of depth<=2 over 3 atoms x 8 truth "
        "assignments; all conditional skeletons with <=3 returns). Oracle: independent reference interpreter. A further part pushes pairs of NEIGHBOUR programs (identifier vs string of the same text, number vs string of the same spelling, ==-equal literals of other type, blanks / case inside string operands) through recompile() of a live evaluator and checks the routing of the new program. "
        "Non-trivial = program with a conditional whose inputs reach >=2 different outcomes; distinct by "
        "(program text, outcome vector).")
RULE += (' Since round 7: skeletons in which the same test occurs more than once; every neighbour pair of three fixed programs through recompile().')
ASSUMPTIONS = [
    "only type-compatible comparisons are generated (the property quantifies over type-compatible inputs)",
    "NaN is not used as a routing input (identity vs equality semantics of `in` differ for NaN)",
    "group labels are unique per return statement, so a returned group identifies the statement that produced it",
]
SHARDS = {"quick": 1, "thorough": 16}


def judge(case):
    prog = case["prog"]
    text = M.render(prog)
    viol = []
    noise_tags = common.pre_noise(case)
    res = sut.compile_text(text)
    tags = common.shape_tags(prog) + noise_tags
    if res[0] != "ok":
        if noise_tags:
            common.reset_after_violation()
        return {"viol": ["grammatical experiment does not compile: %s: %s | %s%s" % (res[1], res[2], text, _after(case))],
                "nontrivial": False, "tags": tags}
    ev = res[1]
    outcomes = []
    for enc in case["inputs"]:
        env = M.dec_inputs(enc)
        act = sut.call(ev, env)
        msg = common.check_routing(prog, env, act)
        outcomes.append(refinterp.run(prog, env))
        if msg:
            viol.append("%s | inputs=%r | %s" % (msg, env, text))
        if sum(1 for v in env.values() if isinstance(v, float) and v != v) >= 2:
            # the very same NaN object in several fields (one missing measurement copied into two columns): == is still false,
            # although `is` - and therefore membership in a tuple - would say otherwise
            nan = float("nan")
            env2 = {k: (nan if isinstance(v, float) and v != v else v) for k, v in env.items()}
            msg = common.check_routing(prog, env2, sut.call(ev, env2))
            if msg:
                viol.append("%s | inputs=%r (one NaN object shared by the fields) | %s" % (msg, env2, text))
                tags.append("shared-nan-object")
    if viol and noise_tags:
        common.reset_after_violation()
    nontrivial = prog["body"]["k"] == "if" and len(set(outcomes)) >= 2
    return {"viol": viol, "nontrivial": nontrivial, "tags": tags, "key": [text, [list(o) for o in outcomes]],
            "sample": {"text": text, "inputs": [M.dec_inputs(e) for e in case["inputs"][:3]],
                       "reference_outcomes": [list(o) for o in outcomes[:3]]}}


def _after(case):
    return " | compiled right after the unrelated text %r" % case["noise"] if case.get("noise") else ""


@st.composite
def guarded_cases(draw):
    """generated programs evaluated on inputs in which ONE field has a value of the wrong type (a word where a number belongs,
    a number where a word belongs): whenever the reference - Python's left-to-right, short-circuiting and / or - reaches a
    verdict without touching the mistyped value, so must the evaluator"""
    c = draw(gen.program_cases(n_inputs=(6, 10), max_depth=2, pred_depth=3, ops=[">", "<", ">=", "<=", "==", "!=", "in", "not in"]))
    typed = [f for f, cl in c["classes"].items() if cl in ("num", "str")]
    if typed:
        out = []
        for enc in c["inputs"]:
            f = draw(st.sampled_from(typed))
            wrong = draw(st.sampled_from(["silver", "", None, (1, 2)])) if c["classes"][f] == "num" else draw(st.sampled_from([7, 0.5, None, (1, 2)]))
            out.append(dict(enc, **{f: M.enc(wrong)}))
        c["inputs"] = c["inputs"][:2] + out
    c["guarded"] = True
    return c


def guarded_fixed():
    I, L, S = M.ident, M.lit_int, M.lit_str
    R = lambda i: M.ret([(S("r%d" % i), "1")])  # noqa: E731
    num = M.cmp_(I("kind"), "==", S("num"))
    gt, lt, ne = M.cmp_(I("value"), ">", L("5")), M.cmp_(I("value"), "<", L("100")), M.cmp_(I("value"), "!=", L("7"))
    preds = [M.and_(M.and_(num, gt), lt), M.and_(num, M.and_(gt, lt)), M.and_(M.and_(M.and_(num, gt), lt), ne),
             M.or_(M.or_(M.not_(num), gt), lt), M.or_(M.not_(num), M.or_(lt, gt)), M.and_(num, M.or_(gt, lt)),
             M.or_(M.and_(num, gt), M.and_(M.not_(num), M.cmp_(I("value"), "==", S("gold")))),
             M.and_(M.and_(M.and_(M.and_(num, gt), lt), ne), M.cmp_(I("value"), ">=", L("6")))]
    envs = [{"kind": k, "value": v} for k in ("num", "text", "") for v in (6, 50, 500, 7, "silver", "gold", None)]
    for p in preds:
        yield {"prog": M.program("e", M.if_([(p, R(0))], R(1))), "classes": {}, "inputs": [M.enc_inputs(e) for e in envs], "guarded": True}
        yield {"prog": M.program("e", M.if_([(p, R(0)), (M.not_(num), R(1))], None)), "classes": {}, "inputs": [M.enc_inputs(e) for e in envs], "guarded": True}


def judge_guarded(case):
    prog = case["prog"]
    text = M.render(prog)
    res = sut.compile_text(text)
    tags = ["guarded-mistyped"]
    if res[0] != "ok":
        return {"viol": ["grammatical experiment does not compile: %s: %s | %s" % (res[1], res[2], text)], "nontrivial": False, "tags": tags}
    viol, judged = [], 0
    for enc in case["inputs"]:
        env = M.dec_inputs(enc)
        try:
            refinterp.run(prog, env)
        except TypeError:
            continue  # the reference itself has to compare the mistyped value: outside the property
        judged += 1
        msg = common.check_routing(prog, env, sut.call(res[1], env))
        if msg:
            viol.append("%s | inputs=%r | %s" % (msg, env, text))
    return {"viol": viol[:4], "nontrivial": judged > 0, "tags": tags, "key": [text, case["inputs"]], "sample": {"text": text[:300], "judged_inputs": judged}}


def judge_case(record):
    c = record["case"]
    if c.get("guarded"):
        return judge_guarded(c)["viol"]
    if "pick" in c:
        from . import c11

        return c11.judge_neighbours(c)["viol"]
    return judge(c)["viol"]


# --------------------------------------------------------------------------- catalogue
def _case(prog, envs):
    return {"prog": prog, "classes": {}, "inputs": [M.enc_inputs(e) for e in envs]}


def catalogue():
    R = lambda i: M.ret([(M.lit_str("r%d" % i), "1")])  # noqa: E731
    # 1. operators x orientations x boundary values
    for op in ["==", "!=", ">", "<", ">=", "<="]:
        for lit, vals in ((M.lit_int("18"), [17, 18, 19, 17.5, 18.0, 18.5]),
                          (M.lit_float("2.5"), [2, 2.5, 3, 2.4999999999999996, 2.5000000000000004]),
                          (M.lit_int("3", True), [-4, -3, -2, -3.0]),
                          (M.lit_int("9007199254740993"), [9007199254740992, 9007199254740993, 9007199254740994, 9007199254740992.0]),
                          (M.lit_int("1234567890123456789"), [1234567890123456788, 1234567890123456789, 1234567890123456790]),
                          (M.lit_float("0.1"), [0.1, 0.09999999999999999, 0.10000000000000002, 0]),
                          (M.lit_str("m"), ["l", "m", "n", "", "ma", "M"])):
            body = M.if_([(M.cmp_(M.ident("x"), op, lit), R(0))], R(1))
            yield _case(M.program("e", body), [{"x": v} for v in vals])
            body = M.if_([(M.cmp_(lit, op, M.ident("x")), R(0))], R(1))
            yield _case(M.program("e", body), [{"x": v} for v in vals])
            body = M.if_([(M.cmp_(M.ident("x"), op, M.ident("y")), R(0))], None)
            lv = M.lit_value(lit)
            yield _case(M.program("e", body), [{"x": v, "y": lv} for v in vals] + [{"x": lv, "y": v} for v in vals])
        body = M.if_([(M.cmp_(M.ident("x"), op, M.tup([M.lit_int("1"), M.lit_int("2")])), R(0))], R(1))
        yield _case(M.program("e", body), [{"x": v} for v in [(1, 2), (1, 1), (1, 3), (1,), (1, 2, 0), (0, 9), (2,)]])
    for op in ["in", "not in"]:
        t = M.tup([M.lit_int("1"), M.lit_int("2"), M.lit_int("3")])
        body = M.if_([(M.cmp_(M.ident("x"), op, t), R(0))], R(1))
        yield _case(M.program("e", body), [{"x": v} for v in [0, 1, 2, 3, 4, 1.0, "1", 2.5]])
        t = M.tup([M.lit_str("US"), M.lit_str("CA", "'")])
        body = M.if_([(M.cmp_(M.ident("x"), op, t), R(0))], None)
        yield _case(M.program("e", body), [{"x": v} for v in ["US", "CA", "us", "FR", "", "USCA"]])
        t = M.tup([M.lit_int("7")])
        body = M.if_([(M.cmp_(M.ident("x"), op, t), R(0))], R(1))
        yield _case(M.program("e", body), [{"x": v} for v in [7, 8, (7,), 7.0]])
        body = M.if_([(M.cmp_(M.ident("x"), op, M.ident("y")), R(0))], R(1))
        yield _case(M.program("e", body), [{"x": 1, "y": (1, 2)}, {"x": 3, "y": [1, 2]}, {"x": "a", "y": {"a", "b"}},
                                           {"x": "c", "y": frozenset(["a"])}, {"x": "b", "y": "abc"},
                                           {"x": "d", "y": "abc"}, {"x": "", "y": ""}])
        body = M.if_([(M.cmp_(M.lit_int("2"), op, M.ident("y")), R(0))], R(1))
        yield _case(M.program("e", body), [{"y": (1, 2)}, {"y": [1]}, {"y": ()}, {"y": {2.0}}])
        t = M.tup([M.ident("p"), M.ident("q")])
        body = M.if_([(M.cmp_(M.ident("x"), op, t), R(0))], R(1))
        yield _case(M.program("e", body), [{"x": 1, "p": 1, "q": 2}, {"x": 3, "p": 1, "q": 2}, {"x": "a", "p": "b", "q": "a"}])
        t = M.tup([M.tup([M.lit_int("1"), M.lit_int("2")]), M.lit_int("3")])
        body = M.if_([(M.cmp_(M.ident("x"), op, t), R(0))], R(1))
        yield _case(M.program("e", body), [{"x": (1, 2)}, {"x": 3}, {"x": 1}, {"x": [1, 2]}, {"x": (1, 2, 3)}])
        body = M.if_([(M.cmp_(M.tup([M.lit_int("1"), M.lit_int("2")]), op, t), R(0))], R(1))
        yield _case(M.program("e", body), [{}])
    # 1b. chains of == / != between fields, asked about NaNs (also one NaN object shared by several fields)
    nan = float("nan")
    ab, ac, ad = (M.cmp_(M.ident("a"), "==", M.ident(n)) for n in "bcd")
    for p in (M.or_(ab, ac), M.or_(M.or_(ab, ac), ad), M.and_(M.cmp_(M.ident("a"), "!=", M.ident("b")), M.cmp_(M.ident("a"), "!=", M.ident("c"))),
              M.cmp_(M.ident("a"), "==", M.ident("a")), M.cmp_(M.ident("a"), "in", M.tup([M.ident("b"), M.ident("c")])),
              M.or_(M.cmp_(M.ident("a"), "==", M.lit_int("1")), M.cmp_(M.ident("a"), "==", M.ident("b")))):
        yield _case(M.program("e", M.if_([(p, R(0))], R(1))),
                    [{"a": nan, "b": nan, "c": 1, "d": nan}, {"a": nan, "b": 2, "c": nan, "d": 0}, {"a": 1, "b": nan, "c": 1, "d": nan},
                     {"a": nan, "b": nan, "c": nan, "d": nan}, {"a": 2, "b": 2, "c": 3, "d": 4}, {"a": 5, "b": 2, "c": 3, "d": 4}])
    # 1c. fields named like constants of other languages (true, false, null ...): ordinary fields, compared by VALUE
    for nm in ("true", "false", "null", "none", "nan", "inf", "yes", "undefined"):
        f = M.ident(nm)
        for p in (M.cmp_(f, "==", M.lit_int("1")), M.cmp_(M.ident("level"), "in", M.tup([f, M.lit_int("7")])), M.not_(M.cmp_(f, "!=", M.lit_int("0"))),
                  M.and_(M.cmp_(f, ">=", M.lit_int("0")), M.cmp_(f, "<", M.ident("level")))):
            yield _case(M.program("e", M.if_([(p, R(0))], R(1)), splitters=[nm] if nm in ("true", "null") else None),
                        [{nm: v, "level": l} for v in (0, 1, 2, 7, 0.0, 1.0, -1) for l in (0, 1, 7, 3)])
    # 1d. chains whose links test the same field against literals that are == although written differently (1 / 1.0 / "1",
    # 0 / 0.0 / -0.0): the FIRST link that holds decides
    X = M.ident("x")
    for lits in ([M.lit_int("1"), M.lit_float("1.0"), M.lit_str("1")], [M.lit_float("1.0"), M.lit_int("1")], [M.lit_int("0"), M.lit_float("0.0", True), M.lit_float("0.0")],
                 [M.lit_str("a"), M.lit_str("a", "'"), M.lit_int("7"), M.lit_float("7.0")], [M.lit_int("2"), M.lit_int("3"), M.lit_float("2.0"), M.lit_int("2")]):
        for has_else in (True, False):
            body = M.if_([(M.cmp_(X, "==", l), R(i)) for i, l in enumerate(lits)], R(9) if has_else else None)
            yield _case(M.program("e", body, splitters=["uid"]), [{"x": v, "uid": "u"} for v in (1, 1.0, True, "1", 0, 0.0, -0.0, False, 7, 7.0, "a", 2, 2.0, 3, None)])
    # 2. boolean trees of depth <= 2 over atoms a,b,c (each atom: field == 1) x all truth assignments
    atoms = [M.cmp_(M.ident(n), "==", M.lit_int("1")) for n in "abc"]
    envs = [dict(zip("abc", bits)) for bits in itertools.product([0, 1], repeat=3)]

    def trees(d):
        if d == 0:
            return list(atoms)
        sub = trees(d - 1)
        res = list(atoms)
        for s in sub:
            res.append(M.not_(s))
        for l in sub:
            for r in sub:
                res.append(M.and_(l, r))
                res.append(M.or_(l, r))
        return res

    t1 = trees(1)
    t2 = []
    # depth 2: combine depth-1 trees (sampled exhaustively but de-duplicated by rendered text)
    seen = set()
    for l in t1:
        for cand in (M.not_(l),):
            t2.append(cand)
        for r in t1:
            for mk in (M.and_, M.or_):
                t2.append(mk(l, r))
    for p in t1 + t2:
        for paren in (0, 1):
            q = dict(p, paren=paren)
            txt = M.tokens_text(M.pred_tokens(q))
            if txt in seen:
                continue
            seen.add(txt)
            yield _case(M.program("e", M.if_([(q, R(0))], R(1))), envs)
    # 3. all conditional skeletons with <= 3 return statements
    cond = lambda n: M.cmp_(M.ident(n), "==", M.lit_int("1"))  # noqa: E731
    names = ["a", "b", "c", "d"]

    def skeletons(budget, depth, counter):
        """yield (body, returns_used)"""
        if budget >= 1:
            yield ("R", 1)
        if depth <= 0 or budget < 1:
            return
        for nb in (1, 2, 3):
            for has_else in (False, True):
                need = nb + (1 if has_else else 0)
                if need > budget:
                    continue
                parts = nb + (1 if has_else else 0)
                for combo in _compositions(budget, parts, depth - 1):
                    yield (("IF", nb, has_else, combo), sum(u for _, u in combo))

    def _compositions(budget, parts, depth):
        if parts == 0:
            yield []
            return
        for sk, used in skeletons(budget - (parts - 1), depth, None):
            for rest in _compositions(budget - used, parts - 1, depth):
                yield [(sk, used)] + rest

    def build(sk, ctr, namei):
        if sk == "R":
            i = ctr[0]
            ctr[0] += 1
            return R(i)
        _, nb, has_else, combo = sk
        branches = []
        for j in range(nb):
            n = names[(namei + j) % 4]
            branches.append((cond(n), build(combo[j][0], ctr, namei + nb)))
        else_ = build(combo[nb][0], ctr, namei + nb) if has_else else None
        return M.if_(branches, else_)

    envs4 = [dict(zip(names, bits)) for bits in itertools.product([0, 1], repeat=4)]
    seen = set()
    for sk, used in skeletons(3, 3, None):
        if sk == "R":
            continue
        body = build(sk, [0], 0)
        prog = M.program("e", body, splitters=["uid"])
        txt = M.render(prog)
        if txt in seen:
            continue
        seen.add(txt)
        yield _case(prog, [dict(e, uid="u7") for e in envs4])
    # 4. the same test written more than once (in a nested chain and again in the outer one, twice in one chain ...): every
    # skeleton with <= 4 return statements, every assignment of the two tests `a == 1` / `b == 1` to its condition slots

    def slots(sk):
        if sk == "R":
            return 0
        _, nb, has_else, combo = sk
        return nb + sum(slots(c[0]) for c in combo)

    def build2(sk, ctr, it):
        if sk == "R":
            i = ctr[0]
            ctr[0] += 1
            return R(i)
        _, nb, has_else, combo = sk
        conds = [cond(next(it)) for _ in range(nb)]
        branches = [(conds[j], build2(combo[j][0], ctr, it)) for j in range(nb)]
        else_ = build2(combo[nb][0], ctr, it) if has_else else None
        return M.if_(branches, else_)

    envs2 = [{"a": x, "b": y, "uid": "u7"} for x in (0, 1) for y in (0, 1)]
    for sk, used in skeletons(4, 2, None):
        if sk == "R":
            continue
        k = slots(sk)
        if k < 2 or k > 4:
            continue
        for assign in itertools.product("ab", repeat=k):
            if len(set(assign)) == k:
                continue  # no repetition: covered above
            prog = M.program("e", build2(sk, [0], iter(assign)), splitters=["uid"])
            txt = M.render(prog)
            if txt in seen:
                continue
            seen.add(txt)
            yield _case(prog, envs2)


def selftest():
    # reference interpreter on repository programs the suite executes, with the suite's expectations
    b = M.if_([(M.cmp_(M.ident("routing_field"), "==", M.lit_int("0")), M.ret([(M.lit_str("G0"), "1")])),
               (M.cmp_(M.ident("routing_field"), "==", M.lit_int("1")), M.ret([(M.lit_str("G1"), "1")])),
               (M.cmp_(M.ident("routing_field"), "in", M.tup([M.lit_int(str(i)) for i in (2, 3, 4, 5)])),
                M.ret([(M.lit_str("G2-5"), "1")])),
               (M.cmp_(M.ident("routing_field"), ">", M.lit_int("5")), M.ret([(M.lit_str("G6+"), "1")]))],
              M.ret([(M.lit_str("default_grp"), "1")]))
    p = M.program("test_experiment", b, splitters=["groupping_id", "groupping_id_1"])
    exp = {0: 0, 1: 1, 2: 2, 5: 2, 6: 3, 9: 3, -1: 4}
    for v, i in exp.items():
        assert refinterp.run(p, {"routing_field": v}) == ("return", i), v
    # conditional_with_idents: falling out of an entered branch is unroutable
    b = M.if_([(M.cmp_(M.ident("field1"), "==", M.ident("field2")),
                M.if_([(M.cmp_(M.ident("field2"), "==", M.lit_str("b")), M.ret([(M.lit_str("group 1.1"), "1")])),
                       (M.cmp_(M.ident("field2"), "==", M.lit_str("c")), M.ret([(M.lit_str("group 1.2"), "1")]))])),
               (M.cmp_(M.ident("field1"), "==", M.ident("field3")),
                M.if_([(M.cmp_(M.ident("field3"), "==", M.lit_str("b1")), M.ret([(M.lit_str("group 2.1"), "1")]))]))])
    p = M.program("basic_experiment", b)
    assert refinterp.run(p, {"field1": "b", "field2": "b", "field3": "b"}) == ("return", 0)
    assert refinterp.run(p, {"field1": "b1", "field2": "b", "field3": "b"}) == ("unroutable",)
    assert refinterp.run(p, {"field1": "b1", "field2": "b", "field3": "b1"}) == ("return", 2)
    # precedence: a or b and not c
    pr = M.or_(M.cmp_(M.ident("a"), "==", M.lit_int("1")),
               M.and_(M.cmp_(M.ident("b"), "==", M.lit_int("1")), M.not_(M.cmp_(M.ident("c"), "==", M.lit_int("1")))))
    assert M.tokens_text(M.pred_tokens(pr)) == "a == 1 or b == 1 and not c == 1"
    pr2 = M.and_(M.or_(M.cmp_(M.ident("a"), "==", M.lit_int("1")), M.cmp_(M.ident("b"), "==", M.lit_int("1"))),
                 M.cmp_(M.ident("c"), "==", M.lit_int("1")))
    assert M.tokens_text(M.pred_tokens(pr2)) == "( a == 1 or b == 1 ) and c == 1"


def known_ids():
    for k in runner.known_for("C02"):
        if k.get("id") == "K1":
            return set(k.get("identifiers", []))
    return set()


def known_filter(case, viol):
    if isinstance(case, dict) and "prog" in case and set(M.all_identifiers(case["prog"])) & known_ids():
        return "K1"
    return None


def k1_probe():
    n = "choose_experiment_variant"
    body = M.if_([(M.cmp_(M.ident(n), "==", M.lit_int("1")), M.ret([(M.lit_str("A"), "1")]))], M.ret([(M.lit_str("C"), "1")]))
    return _case(M.program("exp", body), [{n: 1}, {n: 2}])


def run(ctx, rec):
    if ctx.shard == 0:
        probe = k1_probe()
        v = judge(probe)
        if v["viol"]:
            if known_filter(probe, v["viol"]):
                rec.known_finding("K1", "a field named choose_experiment_variant is shadowed by the generated helper and the "
                                  "wrong branch is taken (still failing)")
            else:
                rec.violation("k1-probe", probe, v["viol"])
                return
        runner.direct_run(ctx, rec, "catalogue", catalogue(), judge)
        if rec.violations:
            return
    n = ctx.n(500, 2500)
    runner.hyp_run(ctx, rec, "generated", gen.program_cases(n_inputs=(6, 12)), judge, n)
    if rec.violations:
        return
    from . import c11

    if ctx.shard == 0:
        runner.direct_run(ctx, rec, "all-neighbours-of-fixed-programs", c11.fixed_neighbours(), c11.judge_neighbours)
        if rec.violations:
            return
    runner.hyp_run(ctx, rec, "neighbour-programs-through-recompile", c11.neighbour_cases(), c11.judge_neighbours, ctx.n(100, 600))
    if rec.violations:
        return
    if ctx.shard == 0:
        runner.direct_run(ctx, rec, "guarded-mistyped-fixed", guarded_fixed(), judge_guarded)
        if rec.violations:
            return
    runner.hyp_run(ctx, rec, "guarded-mistyped", guarded_cases(), judge_guarded, ctx.n(150, 800))
    if rec.violations:
        return
    runner.hyp_run(ctx, rec, "generated-deep",
                   gen.program_cases(n_inputs=(6, 12), max_depth=3, pred_depth=3, max_branches=4, max_fields=6),
                   judge, ctx.n(150, 800))
