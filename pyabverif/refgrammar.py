"""Independent recogniser of the documented grammar: a reference lexer (whole-word keywords, maximal munch)
and an Earley recogniser over token types.  Transcribed from src/pyab_experiment/language/README.rst
("Formal Grammar" + "Language Components" prose); nothing is imported from the repo."""
import re
import unicodedata

# --------------------------------------------------------------------------- grammar (token types as in model.py)
OPS = ["EQ", "NE", "GT", "LT", "GE", "LE", "IN", "NOT_IN"]
GRAMMAR = {
    "S": [["header"]],
    "header": [["DEF", "ID", "LBRACE", "opt_salt", "opt_splitter", "conditional", "RBRACE"]],
    "opt_salt": [["SALT", "COLON", "STRING"], []],
    "opt_splitter": [["SPLITTERS", "COLON", "fields"], []],
    "fields": [["ID"], ["ID", "COMMA", "fields"]],
    "conditional": [["return_expr"], ["IF", "predicate", "LBRACE", "conditional", "RBRACE", "subconditional"]],
    "subconditional": [[], ["ELSE", "LBRACE", "conditional", "RBRACE"],
                       ["ELIF", "predicate", "LBRACE", "conditional", "RBRACE", "subconditional"]],
    "predicate": [["NOT", "predicate"], ["predicate", "OR", "predicate"], ["predicate", "AND", "predicate"],
                  ["LPAREN", "predicate", "RPAREN"], ["term", "logical_op", "term"]],
    # completed from the "Language Components" prose: values are strings, numbers (incl. negatives), tuples
    "term": [["literal"], ["ID"], ["tuple"]],
    "tuple": [["LPAREN", "term_list", "RPAREN"]],
    "term_list": [["term"], ["term", "COMMA", "term_list"]],
    "logical_op": [[o] for o in OPS],
    "return_expr": [["RETURN", "return_statement"]],
    "return_statement": [["literal", "WEIGHTED", "weight"], ["literal", "WEIGHTED", "weight", "COMMA", "return_statement"]],
    "weight": [["INT"], ["FLOAT"]],
    "literal": [["STRING"], ["INT"], ["FLOAT"], ["MINUS", "INT"], ["MINUS", "FLOAT"]],
}
NONTERMINALS = set(GRAMMAR)
_NULLABLE = {"opt_salt", "opt_splitter", "subconditional"}


def accepts(types):
    """Earley recogniser: is the token-type sequence a sentence of S?"""
    n = len(types)
    chart = [set() for _ in range(n + 1)]
    # item: (lhs, rhs_tuple, dot, origin)
    for rhs in GRAMMAR["S"]:
        chart[0].add(("S", tuple(rhs), 0, 0))
    for i in range(n + 1):
        work = list(chart[i])
        while work:
            lhs, rhs, dot, org = work.pop()
            if dot < len(rhs):
                sym = rhs[dot]
                if sym in NONTERMINALS:
                    for r in GRAMMAR[sym]:
                        it = (sym, tuple(r), 0, i)
                        if it not in chart[i]:
                            chart[i].add(it)
                            work.append(it)
                    if sym in _NULLABLE:
                        it = (lhs, rhs, dot + 1, org)
                        if it not in chart[i]:
                            chart[i].add(it)
                            work.append(it)
                elif i < n and types[i] == sym:
                    chart[i + 1].add((lhs, rhs, dot + 1, org))
            else:
                for plhs, prhs, pdot, porg in list(chart[org]):
                    if pdot < len(prhs) and prhs[pdot] == lhs:
                        it = (plhs, prhs, pdot + 1, porg)
                        if it not in chart[i]:
                            chart[i].add(it)
                            work.append(it)
    return any(l == "S" and d == len(r) and o == 0 for l, r, d, o in chart[n])


# --------------------------------------------------------------------------- reference lexer
KEYWORDS = {"def": "DEF", "salt": "SALT", "splitters": "SPLITTERS", "if": "IF", "else": "ELSE", "weighted": "WEIGHTED",
            "return": "RETURN", "and": "AND", "or": "OR", "not": "NOT", "in": "IN"}
_WORD = re.compile(r"[A-Za-z_][A-Za-z0-9_]*")
_FLOAT = re.compile(r"[0-9]+\.[0-9]+")
_INT = re.compile(r"[0-9]+")
_WS = re.compile(r"\s+")
_NOT_IN = re.compile(r"not\s+in(?![A-Za-z0-9_])")
_ELSE_IF = re.compile(r"else\s*if(?![A-Za-z0-9_])")
_PUNCT = [("==", "EQ"), ("!=", "NE"), (">=", "GE"), ("<=", "LE"), (">", "GT"), ("<", "LT"), ("(", "LPAREN"), (")", "RPAREN"),
          ("-", "MINUS"), (",", "COMMA"), (":", "COLON"), ("{", "LBRACE"), ("}", "RBRACE")]


class Ambiguous(Exception):
    pass


class Illegal(Exception):
    pass


def lex(text, split_keywords=False, eof_closes_comment=False):
    """-> list of (type, text).  Raises Illegal for characters that belong to no token, Ambiguous where the
    documentation supports two readings (unterminated or nested block comment, the single word `elseif`)."""
    toks = []
    i, n = 0, len(text)
    while i < n:
        c = text[i]
        m = _WS.match(text, i)
        if m:
            i = m.end()
            continue
        if text.startswith("//", i):
            j = text.find("\n", i)
            i = n if j < 0 else j
            continue
        if text.startswith("/*", i):
            j = text.find("*/", i + 2)
            if j < 0:
                if eof_closes_comment:
                    i = n  # reading "the comment simply runs to the end of the text"
                    continue
                raise Ambiguous("unterminated block comment")
            if "/*" in text[i + 2:j]:
                raise Ambiguous("/* inside a block comment (README claims nesting)")
            i = j + 2
            continue
        if c.isascii() and (c.isalpha() or c == "_"):
            m = _NOT_IN.match(text, i)
            if m:
                toks.append(("NOT_IN", m.group()))
                i = m.end()
                continue
            m = _ELSE_IF.match(text, i)
            if m:
                if m.group() == "elseif":
                    raise Ambiguous("the single word elseif")
                toks.append(("ELIF", m.group()))
                i = m.end()
                continue
            w = _WORD.match(text, i).group()
            if split_keywords and w not in KEYWORDS:
                # first-match reading of the documented regexes: a keyword prefix is split off
                for kw in ("not", "in", "def", "salt", "splitters", "if", "else", "weighted", "return", "and", "or"):
                    if w.startswith(kw):
                        w = kw
                        break
            toks.append((KEYWORDS.get(w, "ID"), w))
            i += len(w)
            continue
        if c.isascii() and c.isdigit():
            m = _FLOAT.match(text, i)
            if m:
                toks.append(("FLOAT", m.group()))
            else:
                m = _INT.match(text, i)
                toks.append(("INT", m.group()))
            i = m.end()
            continue
        if c in "\"'":
            j = text.find(c, i + 1)
            k = text.find("\n", i + 1)
            if j < 0 or (0 <= k < j):
                raise Illegal("unterminated string at %d" % i)
            toks.append(("STRING", text[i:j + 1]))
            i = j + 1
            continue
        for p, t in _PUNCT:
            if text.startswith(p, i):
                toks.append((t, p))
                i += len(p)
                break
        else:
            if not c.isascii() and unicodedata.category(c) == "Nd":
                # the documentation shows numbers only by example (42, 3.14): whether a non-ASCII decimal digit (fullwidth,
                # Arabic-Indic ...) is a digit of the language is not stated, and the implementation's \d accepts it
                raise Ambiguous("non-ASCII decimal digit %r" % c)
            raise Illegal("illegal character %r at %d" % (c, i))
    return toks


def _foreign_digit_outside_strings(text):
    """a non-ASCII decimal digit anywhere outside string literals and comments (the implementation's \\d would take it)"""
    i, n = 0, len(text)
    while i < n:
        c = text[i]
        if c in "\"'":
            j = text.find(c, i + 1)
            k = text.find("\n", i + 1)
            if j < 0 or (0 <= k < j):
                i += 1
                continue
            i = j + 1
        elif text.startswith("//", i):
            j = text.find("\n", i)
            i = n if j < 0 else j
        elif text.startswith("/*", i):
            j = text.find("*/", i + 2)
            i = n if j < 0 else j + 2
        else:
            if not c.isascii() and unicodedata.category(c) == "Nd":
                return True
            i += 1
    return False


def classify(text):
    """-> "accept" | "reject" | "ambiguous" for a raw text"""
    if _foreign_digit_outside_strings(text):
        return "ambiguous"  # e.g. `weighted 0.<fullwidth 5>`: the number pattern is documented only by example
    try:
        t1 = lex(text)
        v1 = accepts([t for t, _ in t1])
    except Ambiguous as a:
        if "unterminated" in str(a):
            # two readings: an unterminated comment is an error (reject) or it runs to the end of the text.  If the second
            # reading rejects as well, the text is invalid under both.
            try:
                t3 = lex(text, eof_closes_comment=True)
                if not accepts([t for t, _ in t3]):
                    return "reject"
            except (Ambiguous, Illegal):
                pass
        return "ambiguous"
    except Illegal:
        v1 = False
    try:
        t2 = lex(text, split_keywords=True)
        v2 = accepts([t for t, _ in t2])
    except Ambiguous:
        return "ambiguous"
    except Illegal:
        v2 = False
    if v1 != v2:
        return "ambiguous"  # whole-word vs first-match reading of keyword prefixes disagree
    return "accept" if v1 else "reject"


def selftest(repo_programs_dir="/repo/tests/unit/test_programs"):
    import os

    if os.path.isdir(repo_programs_dir):
        for fn in sorted(os.listdir(repo_programs_dir)):
            with open(os.path.join(repo_programs_dir, fn)) as f:
                src = f.read()
            if classify(src) != "accept":
                raise AssertionError("reference recogniser does not accept repository program " + fn)
    good = ['def e { return "a" weighted 1 }', "def e{salt:'s' splitters:a,b if a==1{return 1 weighted 0.5}else if not(b in(1,2))and a<=-3{return -1.5 weighted 2}else{return 'x' weighted 1,'y' weighted 0}}",
            "def e { if (a) == (1) { return 1 weighted 1 } }", "def e { if ((a, b), 1) != c or not not a > 1 { return 1 weighted 1 } }"]
    bad = ["", "def e { }", 'def e { return "a" weighted 1 } x', 'def e { return "a" weighted 1 } def f { return "a" weighted 1 }',
           'def e { return "a" weighted .5 }', "def e { if a = 1 { return 1 weighted 1 } }", "def e { if a =< 1 { return 1 weighted 1 } }",
           "def e { if () == a { return 1 weighted 1 } }", "def e { if (1,) == a { return 1 weighted 1 } }", 'def e { return "a" weighted -1 }',
           "def e { return a weighted 1 }", "def e { splitters: a salt: 's' return 1 weighted 1 }", "def e { if a == 1 { return 1 weighted 1 } else { return 2 weighted 1 } else { return 3 weighted 1 } }",
           'def e { return "a" weighted 1; }', 'def e { return "a" weighted 1 @ }', "def e { if a { return 1 weighted 1 } }"]
    for g in good:
        assert classify(g) == "accept", g
    for b in bad:
        assert classify(b) == "reject", b
    assert classify("def e { if a == 1 { return 1 weighted 1 } elseif a == 2 { return 1 weighted 1 } }") == "ambiguous"
    assert classify("def e { /* /* x */ return 1 weighted 1 }") == "ambiguous"
    assert classify('def e { return 1 weighted 1 } /* open') == "ambiguous"
    assert classify('def e { return 1 weighted 1 /* open }') == "reject"
    assert classify('def e { return 1 weighted 0.\uff15 }') == "ambiguous" and classify('def e { return "\uff15" weighted 1 }') == "accept"
