"""Reference bucketing: (a) exact rational partition of the 2^32 grid, (b) the published MD5 scheme."""
import hashlib
from fractions import Fraction
from itertools import accumulate

GRID = 2 ** 32
ZONE = Fraction(1, 10 ** 12)  # relative half-width of the float ambiguity zone (0.0043 grid points)

RFC1321 = {
    "": "d41d8cd98f00b204e9800998ecf8427e",
    "a": "0cc175b9c0f1b6a831c399e269772661",
    "abc": "900150983cd24fb0d6963f7d28e17f72",
    "message digest": "f96b697d7cb7938d525a2f31aaf161d0",
    "abcdefghijklmnopqrstuvwxyz": "c3fcd3d76192e4007dfb496cca67e13b",
}


def selftest():
    for s, h in RFC1321.items():
        if hashlib.md5(s.encode()).hexdigest() != h:
            raise AssertionError("local hashlib.md5 disagrees with RFC 1321 on %r" % s)
    assert select(["1", "1"], 0)[0] == 0 and select(["1", "1"], GRID // 2)[0] == 1
    assert select(["1", "1"], GRID // 2 - 1)[0] == 0 and select(["1", "0", "1"], GRID // 2)[0] == 2
    assert select(["0", "3.4", "5", "3"], GRID - 1)[0] == 3


def published_key(salt, fields):
    """salt followed by str() of the splitter values in alphabetical (code-point) order of field name"""
    return (salt or "") + "".join(str(v) for _, v in sorted(fields.items()))


def published_position(salt, fields):
    """first 32 bits of the MD5 digest of the UTF-8 encoded key (an integer k; u = k / 2^32)"""
    d = hashlib.md5(published_key(salt, fields).encode("utf-8")).digest()
    return int.from_bytes(d[:4], "big")


def string_position(s):
    return int.from_bytes(hashlib.md5(s.encode("utf-8")).digest()[:4], "big")


def _exact_in_floats(ws, k):
    """certificate: the implementation's double arithmetic is exact for these weights at grid point k"""
    fr = [Fraction(w) for w in ws]
    fl = [float(w) for w in ws]
    if any(Fraction(f) != q for f, q in zip(fl, fr)):
        return False
    acc = 0.0
    exact = Fraction(0)
    for f, q in zip(fl, fr):
        acc += f
        exact += q
        if Fraction(acc) != exact:
            return False
    u = k / GRID
    return Fraction(u * acc) == Fraction(k, GRID) * exact


def select(ws, k):
    """ws: weight source texts; k: grid point 0..2^32-1
    -> (exact index, set of acceptable indices, zone_used: bool)"""
    fr = [Fraction(w) for w in ws]
    cum = list(accumulate(fr))
    total = cum[-1]
    if total <= 0:
        raise ValueError("all-zero weights are outside the property's quantifier")
    lhs = Fraction(k) * total
    idx = next(i for i, c in enumerate(cum) if lhs < c * GRID)
    if _exact_in_floats(ws, k):
        return idx, {idx}, False
    p = lhs / GRID
    tol = ZONE * total
    ok = {idx}
    lo = Fraction(0)
    for i, c in enumerate(cum):
        if fr[i] > 0 and lo - tol <= p < c + tol:
            ok.add(i)
        lo = c
    return idx, ok, len(ok) > 1


def boundaries(ws):
    """grid points adjacent to every boundary: ceil(b_i * 2^32 / T) for every proper prefix"""
    fr = [Fraction(w) for w in ws]
    cum = list(accumulate(fr))
    total = cum[-1]
    res = []
    for c in cum[:-1]:
        x = c * GRID / total
        res.append(-((-x.numerator) // x.denominator))  # ceil
    return res
