"""Text-level generators: trivia (whitespace / comments) between tokens, token-level and character-level mutations."""
from hypothesis import strategies as st

WORD = "abcdefghijklmnopqrstuvwxyzABCDEFGHIJKLMNOPQRSTUVWXYZ0123456789_"

_WS = [" ", "  ", "\t", "\n", "\r\n", "\n\n", " \n ", "\x0c", "\x0b", "\u00a0", "\u2003", "\n\t\t", "\r", " \r ", "\r\r", "\x1c", "\x85", "\u2028"]
_COMMENT_WORDS = ["x", "return", '"', "'", "//", "*", "/", "{", "}", "weighted 1", "def", "é", "if a == 1", ",", '"B" weighted 1',
                  "**", "* /", "http://x", "日本", "else", "(", ")", "-", "salt: 's'", " ", "  ", "\r", "\x0c", "a\rb = 1",
                  "x.pyab", "fmt: off", "\\", "#", "noqa", "@", ";"]


class Chooser:
    """Consumes a byte string drawn ONCE from Hypothesis (st.binary): every choice below is a pure function of those
    bytes, so cases stay replayable and shrink (towards zero bytes = the simplest choice, listed first) while avoiding
    thousands of nested strategy draws."""

    def __init__(self, data):
        self.data = data
        self.i = 0

    def byte(self):
        b = self.data[self.i] if self.i < len(self.data) else 0
        self.i += 1
        return b

    def below(self, n):
        return self.byte() % n if n > 0 else 0

    def pick(self, seq):
        return seq[self.byte() % len(seq)]

    def flag(self):
        return self.byte() & 1 == 1


def _line_comment(ch):
    body = "".join(ch.pick(_COMMENT_WORDS + ["/*", "*/", "/* x */"]) for _ in range(ch.below(5)))
    return "//" + body.replace("\n", " ") + "\n"


def _block_comment(ch):
    parts = [ch.pick(_COMMENT_WORDS + ["\n", "\n\n", "\r\n"]) for _ in range(ch.below(6))]
    body = " ".join(parts) if ch.flag() else "".join(parts)
    # no comment terminator and no nested opener inside (documentation is ambiguous about nesting)
    while "*/" in body or "/*" in body:
        body = body.replace("*/", "* /").replace("/*", "/ *")
    # bodies may start or end with '/' or '*' ( /*/ toggled /*/ , /** doc **/ , /*//////// banner */ ): the comment still ends
    # at the first */ that follows the opening /*
    k = ch.below(8)
    if k == 0:
        body = "/" + body
    elif k == 1:
        body = "/" + body + "/"
    elif k == 2:
        body = "*" + body + "*"
    elif k == 3:
        body = "//////" + body
    while "*/" in body or "/*" in body:
        body = body.replace("*/", "* /").replace("/*", "/ *")
    return "/*" + body + "*/"


def trivia(ch, allow_empty=True):
    """one trivia sequence; returns (text, tags)"""
    k = ch.below(10)
    if k < 4:
        if allow_empty and k == 0:
            return "", []
        return ch.pick(_WS), ["ws"]
    out, tags = "", []
    for _ in range(1 + ch.below(3)):
        kind = ch.pick(["block", "block", "line", "ws"])
        if kind == "block":
            c = _block_comment(ch)
            tags.append("block-comment")
            if "\n" in c:
                tags.append("block-comment-multiline")
            if '"' in c or "'" in c:
                tags.append("quote-in-comment")
            if "//" in c:
                tags.append("//-in-block-comment")
            out += c
        elif kind == "line":
            c = _line_comment(ch)
            tags.append("line-comment")
            if "/*" in c:
                tags.append("/*-after-//")
            if '"' in c or "'" in c:
                tags.append("quote-in-comment")
            out += c
        else:
            out += ch.pick(_WS)
    return out, tags


def needs_separator(a, b):
    """two adjacent token texts need whitespace between them iff both edge characters are word characters"""
    return bool(a) and bool(b) and a[-1] in WORD and b[0] in WORD


STYLES = ["random", "random", "random", "min", "lines", "dense-comments", "comment-line-before-salt"]


def make_variant(data, toks, style=None):
    """data: bytes from Hypothesis; toks: [(type, text)] -> (text, tags)"""
    ch = Chooser(data)
    if style is None:
        style = ch.pick(STYLES)
    out = []
    tags = set(["style:" + style])
    lead, t = ("", []) if style == "min" else trivia(ch)
    if lead.strip():
        tags.add("trivia-before-first-token")
    out.append(lead)
    tags.update(t)
    for i, (ty, tx) in enumerate(toks):
        if ty in ("NOT_IN", "ELIF"):
            # multi-word single tokens: only the inner whitespace varies (no comment inside)
            a, b = tx.split()
            inner = ch.pick([" ", "  ", "\t", "\n", " \n\t"]) if style != "min" else " "
            tx = a + inner + b
        out.append(tx)
        if i + 1 < len(toks):
            nxt = toks[i + 1][1]
            need = needs_separator(tx, nxt)
            if need and ty in ("INT", "FLOAT") and not nxt[0].isdigit():
                need = False  # 18and / 2.5or / 3in: a number ends where the digits end, the word after it is a token of its own
            if style == "min":
                sep, t = (" " if need else ""), []
            elif style == "lines":
                sep, t = "\n", []
            elif style == "dense-comments":
                sep, t = trivia(ch, allow_empty=False)
                if not sep.strip():
                    sep, t = sep + _block_comment(ch), t + ["block-comment"]
            else:
                sep, t = trivia(ch, allow_empty=not need)
            if need and not (sep and (sep[0].isspace() or sep.startswith("/"))):
                sep = " " + sep
            if style == "comment-line-before-salt":
                # `// note` on its own line right before the salt clause, which sits on one line of its own: if the line
                # break that ends the comment were lost, the clause would silently become part of the comment
                if toks[i + 1][0] == "SALT":
                    sep = sep + "\n// " + ch.pick(["note", "enable for the rerun:", "salt below", "x"]) + "\n"
                    tags.add("line-comment")
                    tags.add("comment-line-before-salt")
                elif ty in ("SALT", "COLON") and toks[i + 1][0] in ("COLON", "STRING"):
                    sep = " "
                elif ty == "STRING" and i >= 2 and toks[i - 2][0] == "SALT":
                    sep = "\n"
            out.append(sep)
            tags.update(t)
    trail, t = ("", []) if style == "min" else trivia(ch)
    if trail.endswith("\n") and "//" in trail[:-1].split("\n")[-1] and ch.flag():
        trail = trail[:-1]  # the last // comment is ended by the end of the text, not by a line break
        tags.add("line-comment-ends-at-EOF")
    if trail.strip():
        tags.add("trivia-after-last-token")
    out.append(trail)
    tags.update(t)
    text = "".join(out)
    for line in text.split("\n"):
        if line.count("/*") >= 2:
            tags.add("two-block-comments-on-one-line")
    if not any(c.isspace() for c in text):
        tags.add("no-whitespace-at-all")
    return text, sorted(tags)


def trivia_variant(toks, style=None):
    """Hypothesis strategy -> (text, tags)"""
    n = 16 + 14 * len(toks)
    return st.binary(min_size=n, max_size=n).map(lambda data: make_variant(data, toks, style))


# --------------------------------------------------------------------------- token-level mutations (C06)
ILLEGAL = ["=", ".", ";", "@", "#", "$", "%", "^", "&", "*", "!", "~", "?", "[", "]", "|", "\\", "`", "/", "+"]
SAMPLE_TOKENS = [("ID", "zz"), ("INT", "7"), ("FLOAT", "0.5"), ("STRING", '"s"'), ("STRING", '""'), ("STRING", "''"), ("STRING", '"7"'), ("INT", "0"), ("LPAREN", "("), ("RPAREN", ")"), ("MINUS", "-"),
                 ("COMMA", ","), ("COLON", ":"), ("LBRACE", "{"), ("RBRACE", "}"), ("EQ", "=="), ("GT", ">"), ("LT", "<"),
                 ("GE", ">="), ("LE", "<="), ("NE", "!="), ("IN", "in"), ("NOT", "not"), ("NOT_IN", "not in"), ("DEF", "def"),
                 ("SALT", "salt"), ("SPLITTERS", "splitters"), ("IF", "if"), ("ELIF", "else if"), ("ELSE", "else"),
                 ("WEIGHTED", "weighted"), ("RETURN", "return"), ("AND", "and"), ("OR", "or")]

MUTATIONS = ["delete", "duplicate", "swap-adjacent", "swap-distant", "insert-token", "insert-illegal", "prefix-junk",
             "suffix-junk", "replace-token", "broken-def-in-front", "two-definitions", "truncate", "glue-illegal", "separator-before-closer",
             "unicode-lookalike"]


@st.composite
def mutate_tokens(draw, toks, other_toks=None):
    """-> (new token list, [mutation kinds]).  Illegal characters are inserted *between* tokens only."""
    toks = list(toks)
    kinds = []
    for _ in range(draw(st.sampled_from([1, 1, 1, 2, 3]))):
        kind = draw(st.sampled_from(MUTATIONS))
        n = len(toks)
        if n == 0:
            break
        if draw(st.booleans()):
            i = draw(st.integers(0, n - 1))
        else:
            # choose a token TYPE first, then one of its occurrences: rare token kinds (MINUS, NOT, ELSE, COLON ...) are
            # mutated as often as frequent ones
            types = sorted({t for t, _ in toks})
            ty = draw(st.sampled_from(types))
            occ = [j for j, (t, _) in enumerate(toks) if t == ty]
            i = occ[draw(st.integers(0, len(occ) - 1))]
        if kind == "delete":
            del toks[i]
        elif kind == "duplicate":
            toks.insert(i, toks[i])
        elif kind == "swap-adjacent" and n > 1:
            i = min(i, n - 2)
            toks[i], toks[i + 1] = toks[i + 1], toks[i]
        elif kind == "swap-distant" and n > 2:
            j = draw(st.integers(0, n - 1))
            toks[i], toks[j] = toks[j], toks[i]
        elif kind == "insert-token":
            toks.insert(i, draw(st.sampled_from(SAMPLE_TOKENS)))
        elif kind == "replace-token":
            toks[i] = draw(st.sampled_from(SAMPLE_TOKENS))
        elif kind == "insert-illegal":
            toks.insert(draw(st.integers(0, n)), ("ILLEGAL", draw(st.sampled_from(ILLEGAL))))
        elif kind == "prefix-junk":
            junk = draw(st.lists(st.sampled_from(SAMPLE_TOKENS + [("ILLEGAL", c) for c in ILLEGAL[:6]]), min_size=1, max_size=4))
            toks = junk + toks
        elif kind == "suffix-junk":
            junk = draw(st.lists(st.sampled_from(SAMPLE_TOKENS + [("ILLEGAL", c) for c in ILLEGAL[:6]]), min_size=1, max_size=4))
            toks = toks + junk
        elif kind == "broken-def-in-front":
            src = list(other_toks or toks)
            cut = draw(st.integers(1, max(1, len(src) - 1)))
            toks = src[:cut] + toks
        elif kind == "two-definitions":
            toks = toks + list(other_toks or toks)
        elif kind == "truncate":
            toks = toks[:i]
        elif kind == "glue-illegal":
            # an illegal character glued onto a token without whitespace: 18. / 1e3 / x; / a.b / "s"! ...
            ty, tx = toks[i]
            ch = draw(st.sampled_from([".", ";", "!", "@", "=", "#", "$", "%", "e3", ".5.", "_0" if ty in ("INT", "FLOAT") else "."]))
            if draw(st.booleans()) or ty in ("ID", "INT", "FLOAT") and ch in ("e3", "_0"):
                toks[i] = ("GLUED", tx + ch)
            else:
                toks[i] = ("GLUED", ch + tx)
        elif kind == "unicode-lookalike":
            # a token replaced by characters that merely LOOK like it (fullwidth forms, compatibility symbols): they belong to
            # no token of the language; any Unicode "normalisation" before lexing would turn them into the real thing
            ty, tx = toks[i]
            if ty == "STRING":
                continue
            special = {"==": "\u2a75", "in": "\u33cc", "2": "\u00b2", "1": "\u00b9", "3": "\u00b3", "<=": "\u2264", ">=": "\u2265",
                       "!=": "\u2260", "-": "\u2212", "{": "\ufe5b", "}": "\ufe5c", "(": "\ufe59", ")": "\ufe5a", ",": "\uff0c", ":": "\ufe55"}
            if tx in special and draw(st.booleans()):
                new = special[tx]
            else:
                j = draw(st.integers(0, len(tx) - 1))
                full = "".join(chr(ord(c) + 0xFEE0) if 0x21 <= ord(c) <= 0x7E else c for c in tx)
                new = full if draw(st.booleans()) else tx[:j] + full[j] + tx[j + 1:]
            toks[i] = ("LOOKALIKE", new)
        elif kind == "separator-before-closer":
            closers = [j for j, (t, _) in enumerate(toks) if t in ("RPAREN", "RBRACE", "LBRACE", "RETURN", "IF")]
            if not closers:
                continue
            j = closers[draw(st.integers(0, len(closers) - 1))]
            toks.insert(j, draw(st.sampled_from([("COMMA", ","), ("COLON", ":"), ("COMMA", ",")])))
        else:
            continue
        kinds.append(kind)
    return toks, kinds


@st.composite
def mutate_chars(draw, text):
    """single-character edits of rendered text -> (text, [kinds])"""
    kinds = []
    alphabet = "=.;@#!<>(){},:-\"'/* \n_abz019"
    for _ in range(draw(st.sampled_from([1, 1, 2]))):
        if not text:
            break
        i = draw(st.integers(0, len(text) - 1))
        kind = draw(st.sampled_from(["char-delete", "char-insert", "char-transpose", "char-replace", "ws-insert", "ws-delete"]))
        if kind == "char-delete":
            text = text[:i] + text[i + 1:]
        elif kind == "char-insert":
            text = text[:i] + draw(st.sampled_from(alphabet)) + text[i:]
        elif kind == "char-transpose" and i + 1 < len(text):
            text = text[:i] + text[i + 1] + text[i] + text[i + 2:]
        elif kind == "char-replace":
            text = text[:i] + draw(st.sampled_from(alphabet)) + text[i + 1:]
        elif kind == "ws-insert":
            # whitespace-only edits: a blank inside a token (de f, weighted 1 1 vs 11)
            text = text[:i] + draw(st.sampled_from([" ", "\n", "\t"])) + text[i:]
        elif kind == "ws-delete":
            ws = [j for j, c in enumerate(text) if c.isspace()]
            if not ws:
                continue
            j = ws[draw(st.integers(0, len(ws) - 1))]
            text = text[:j] + text[j + 1:]
        else:
            continue
        kinds.append(kind)
    return text, kinds
