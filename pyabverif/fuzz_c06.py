"""atheris (libFuzzer) target for C06/C07: raw text -> reference recogniser -> the real compiler.
usage: fuzz_c06.py --out RESULT.json --runs N --seed S --corpus {seeded,empty} --workdir DIR
The semantic oracle is inside the target: reference rejects => compiling must fail; reference accepts and the text uses
no K1 identifier => compiling must succeed (reported under C07 by the caller)."""
import argparse
import hashlib
import json
import os
import sys

HERE = os.path.dirname(os.path.abspath(__file__))
VERIF = os.path.dirname(HERE)
sys.path.insert(0, VERIF)
sys.path.insert(0, os.environ.get("PYAB_SRC", "/repo/src"))
if os.path.isdir(os.path.join(VERIF, ".deps")):
    sys.path.append(os.path.join(VERIF, ".deps"))

try:
    import atheris  # noqa: E402
except ImportError:  # fresh checkout: install from the offline wheelhouse into /verif/.deps (what MANIFEST.setup_cmd does)
    import subprocess

    subprocess.run([sys.executable, "-m", "pip", "install", "-q", "--no-index", "--find-links", "/opt/veriftools/wheels",
                    "--target", os.path.join(VERIF, ".deps"), "atheris"], check=False, stdout=subprocess.DEVNULL,
                   stderr=subprocess.DEVNULL)
    sys.path.append(os.path.join(VERIF, ".deps"))
    import atheris  # noqa: E402

with atheris.instrument_imports(include=["pyab_experiment"]):
    import pyab_experiment.experiment_evaluator  # noqa: F401,E402
    import pyab_experiment.language.grammar  # noqa: F401,E402
    import pyab_experiment.language.lexer  # noqa: F401,E402

from pyabverif import gen, refgrammar, sut  # noqa: E402

STATS = {"execs": 0, "reject": 0, "accept": 0, "ambiguous": 0, "violation": None, "accepted_not_compiling": None,
         "distinct_rejected": 0, "digests": [], "samples": []}
SEEN = set()
OUT = [None]


def _dump():
    with open(OUT[0] + ".tmp", "w") as f:
        json.dump(STATS, f)
    os.replace(OUT[0] + ".tmp", OUT[0])


class Violation(Exception):
    pass


def TestOneInput(data):
    try:
        text = data.decode("utf-8")
    except UnicodeDecodeError:
        text = data.decode("utf-8", "replace")
    STATS["execs"] += 1
    verdict = refgrammar.classify(text)
    STATS[verdict] += 1
    if verdict == "reject":
        h = hashlib.sha1(text.encode("utf-8", "replace")).hexdigest()[:16]
        if h not in SEEN:
            SEEN.add(h)
            STATS["distinct_rejected"] += 1
            if len(STATS["digests"]) < 200000:
                STATS["digests"].append(h)
            if len(STATS["samples"]) < 3 and 20 < len(text) < 200:
                STATS["samples"].append(text)
        res = sut.compile_text(text)
        if res[0] == "ok":
            STATS["violation"] = text
            _dump()
            raise Violation("text outside the grammar compiled: %r" % text)
    elif verdict == "accept":
        toks = refgrammar.lex(text)
        ids = {t for ty, t in toks if ty == "ID"}
        if not ids & (gen.K1_NAMES | gen.AMBIGUOUS_NAMES) and len(text) < 4000:
            res = sut.compile_text(text)
            if res[0] != "ok" and STATS["accepted_not_compiling"] is None:
                STATS["accepted_not_compiling"] = {"text": text, "error": list(res[1:])}
    if STATS["execs"] % 500 == 0:
        _dump()


def main():
    ap = argparse.ArgumentParser()
    ap.add_argument("--out", required=True)
    ap.add_argument("--runs", type=int, default=20000)
    ap.add_argument("--seed", type=int, default=1)
    ap.add_argument("--corpus", default="seeded")
    ap.add_argument("--workdir", required=True)
    a = ap.parse_args()
    OUT[0] = a.out
    corpus = os.path.join(a.workdir, "corpus")
    os.makedirs(corpus, exist_ok=True)
    if a.corpus == "seeded":
        d = "/repo/tests/unit/test_programs"
        if os.path.isdir(d):
            for fn in os.listdir(d):
                with open(os.path.join(d, fn), "rb") as f, open(os.path.join(corpus, fn), "wb") as g:
                    g.write(f.read())
        for i, t in enumerate(['def e { return "a" weighted 1 }', "def e{salt:'s' splitters:a,b if a==1{return 1 weighted 0.5}else if not(b in(1,2))and a<=-3{return -1.5 weighted 2}else{return 'x' weighted 1}}"]):
            with open(os.path.join(corpus, "seed%d" % i), "w") as g:
                g.write(t)
    dict_path = os.path.join(a.workdir, "dict.txt")
    with open(dict_path, "w") as f:
        for kw in ["def", "salt", "splitters", "if", "else", "else if", "weighted", "return", "and", "or", "not", "not in", "in",
                   "==", "!=", ">=", "<=", "/*", "*/", "//", "{", "}", "(", ")", ":", ","]:
            f.write('"%s"\n' % kw.replace("\\", "\\\\").replace('"', '\\"'))
    argv = [sys.argv[0], "-runs=%d" % a.runs, "-seed=%d" % (a.seed or 1), "-max_len=600", "-dict=" + dict_path,
            "-artifact_prefix=" + os.path.join(a.workdir, "crash-"), "-print_final_stats=0", "-verbosity=0", corpus]
    _dump()
    atheris.Setup(argv, TestOneInput)
    atheris.Fuzz()


if __name__ == "__main__":
    main()
