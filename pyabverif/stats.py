"""chi-square survival function in pure Python (no scipy), self-tested."""
import math


def _gser(a, x):
    # lower regularised incomplete gamma P(a,x) by series
    ap = a
    s = 1.0 / a
    d = s
    for _ in range(100000):
        ap += 1.0
        d *= x / ap
        s += d
        if abs(d) < abs(s) * 1e-16:
            break
    return s * math.exp(-x + a * math.log(x) - math.lgamma(a))


def _gcf(a, x):
    # upper regularised incomplete gamma Q(a,x) by continued fraction (modified Lentz)
    tiny = 1e-300
    b = x + 1.0 - a
    c = 1.0 / tiny
    d = 1.0 / b if b != 0 else 1.0 / tiny
    h = d
    for i in range(1, 100000):
        an = -i * (i - a)
        b += 2.0
        d = an * d + b
        if abs(d) < tiny:
            d = tiny
        c = b + an / c
        if abs(c) < tiny:
            c = tiny
        d = 1.0 / d
        de = d * c
        h *= de
        if abs(de - 1.0) < 1e-16:
            break
    return math.exp(-x + a * math.log(x) - math.lgamma(a)) * h


def gammaq(a, x):
    if x <= 0:
        return 1.0
    if x < a + 1.0:
        return max(0.0, 1.0 - _gser(a, x))
    return _gcf(a, x)


def chi2_sf(x, df):
    return gammaq(df / 2.0, x / 2.0)


def chi2_gof(observed, expected):
    """returns (statistic, df, p)"""
    stat = 0.0
    k = 0
    for o, e in zip(observed, expected):
        if e <= 0:
            if o:
                return float("inf"), max(1, len(observed) - 1), 0.0
            continue
        k += 1
        stat += (o - e) ** 2 / e
    df = max(1, k - 1)
    return stat, df, chi2_sf(stat, df)


def chi2_contingency(table):
    rows = [sum(r) for r in table]
    cols = [sum(c) for c in zip(*table)]
    n = float(sum(rows))
    stat = 0.0
    for i, r in enumerate(table):
        for j, o in enumerate(r):
            e = rows[i] * cols[j] / n
            if e > 0:
                stat += (o - e) ** 2 / e
    r_eff = sum(1 for r in rows if r > 0)
    c_eff = sum(1 for c in cols if c > 0)
    df = max(1, (r_eff - 1) * (c_eff - 1))
    return stat, df, chi2_sf(stat, df)


# frozen reference values (scipy.stats.chi2.sf, computed once elsewhere)
_TABLE = [
    (3.841458820694124, 1, 0.05),
    (10.827566170662733, 1, 0.001),
    (37.32489311, 1, 1.0e-9),
    (5.991464547107979, 2, 0.05),
    (41.44653167389282, 2, 1.0e-9),
    (18.307038053275146, 10, 0.05),
    (124.3421134, 100, 0.05),
    (2.0, 7, 0.9598403687301016),
]


def selftest():
    for x, df, p in _TABLE:
        got = chi2_sf(x, df)
        if not math.isclose(got, p, rel_tol=2e-6):
            raise AssertionError("chi2_sf(%r,%r)=%r expected %r" % (x, df, got, p))
    # exact closed form for df=2: exp(-x/2)
    for x in (0.1, 1.0, 7.5, 40.0, 90.0):
        if not math.isclose(chi2_sf(x, 2), math.exp(-x / 2), rel_tol=1e-10):
            raise AssertionError("chi2 df=2 closed form mismatch at %r" % x)
    # df=1: erfc(sqrt(x/2))
    for x in (0.01, 1.0, 9.0, 37.0, 60.0):
        if not math.isclose(chi2_sf(x, 1), math.erfc(math.sqrt(x / 2)), rel_tol=1e-9):
            raise AssertionError("chi2 df=1 closed form mismatch at %r" % x)
