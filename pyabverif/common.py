"""Helpers shared by property modules: compile + evaluate a model program against the reference."""
from . import model as M
from . import refinterp, sut


def outcome_json(o):
    if o[0] == "group":
        return ["group", M.enc(o[1]) if isinstance(o[1], (str, int, float, bool, type(None), tuple)) else repr(o[1])]
    return list(o)


def expected_outcome(prog, env):
    return refinterp.run(prog, env)


def check_routing(prog, env, actual):
    """compare one actual outcome with the reference; -> message or None"""
    exp = refinterp.run(prog, env)
    if actual[0] == "error":
        return "evaluation raised %s: %s (reference: %s)" % (actual[1], actual[2], _exp_text(prog, exp))
    if exp[0] == "unroutable":
        if actual[0] != "unroutable":
            return "reference says unroutable, evaluator returned %r" % (actual[1],)
        return None
    stmt = M.returns(prog["body"])[exp[1]]
    if actual[0] == "unroutable":
        return "evaluator raised the unroutable error, reference selects %s" % _exp_text(prog, exp)
    allowed = refinterp.group_values(stmt)
    if not any(sut.same_value(actual[1], a) for a in allowed):
        return "evaluator returned %r, reference selects %s" % (actual[1], _exp_text(prog, exp))
    return None


def _exp_text(prog, exp):
    if exp[0] == "unroutable":
        return "unroutable"
    stmt = M.returns(prog["body"])[exp[1]]
    return "return statement #%d with groups %r" % (exp[1], refinterp.group_values(stmt))


def shape_tags(prog):
    tags = set()
    body = prog["body"]
    if body["k"] == "if":
        tags.add("conditional")
    for p in M.preds(body):
        for c in M.cmps(p):
            tags.add("op:" + c["op"])
            if c["l"]["k"] == "lit" and c["r"]["k"] == "id":
                tags.add("orient:lit-ident")
            elif c["l"]["k"] == "id" and c["r"]["k"] == "id":
                tags.add("orient:ident-ident")
            elif c["l"]["k"] == "id":
                tags.add("orient:ident-lit")
            for t in (c["l"], c["r"]):
                if t["k"] == "tuple":
                    tags.add("tuple")
                    if M.term_idents(t):
                        tags.add("tuple-with-ident")
                    if any(x["k"] == "tuple" for x in t["items"]):
                        tags.add("nested-tuple")
                    if len(t["items"]) == 1:
                        tags.add("one-element-tuple")
            if c.get("paren"):
                tags.add("redundant-parens")
        for k in ("not", "and", "or"):
            if _has(p, k):
                tags.add("bool:" + k)
    if _missing_else(body):
        tags.add("missing-else")
    if M.depth(body) >= 2:
        tags.add("nested")
    if M.max_chain(body) >= 2:
        tags.add("else-if")
    if prog["splitters"] and set(prog["splitters"]) & set(M.condition_fields(prog)):
        tags.add("shared-splitter-condition-field")
    if prog["salt"] is not None:
        tags.add("salt")
    return sorted(tags)


def _has(p, k):
    if p["k"] == k:
        return True
    if p["k"] == "cmp":
        return False
    if p["k"] == "not":
        return _has(p["p"], k)
    return _has(p["l"], k) or _has(p["r"], k)


def _missing_else(b):
    if b["k"] == "ret":
        return False
    if b["else"] is None:
        return True
    return any(_missing_else(x) for _, x in b["branches"]) or _missing_else(b["else"])


# --------------------------------------------------------------------------- unrelated compiles before the case under test
NOISE_TEXTS = [
    None, None, None,
    'def n { return "a" weighted 1 } /* trailing note never closed',
    'def n { splitters: u return "a" weighted 1, "b" weighted 1 }\n/* TODO',
    "def draft { /* todo",
    "@@@ not an experiment",
    'def n { return "a" weighted 1 } // */ def m { return "b" weighted 1 }',
    'def n { splitters: a, b, c return "a" weighted 1 ;',
    'def lambda { splitters: class return "a" weighted 1 }',
    "/*",
    'def n { salt: "x" splitters: zz_first, zz_second if zz_first == (1, (2, zz_second)) { return 1 weighted 1, 1.0 weighted 2 } }',
    # refused half-way through a return statement (after complete groups have been read)
    'def n { splitters: u return "old_a" weighted 5, "old_b" weighted }',
    'def n { splitters: u return "old_a" weighted 5, "old_b" weighted 7, }',
    'def n { splitters: u return "a" weighted 1, "b" weighted 0.5 @',
]
RESET_TEXT = '/* reset */ def r { return "a" weighted 1 }'


def noise_strategy():
    from hypothesis import strategies as st

    return st.sampled_from(NOISE_TEXTS)


def pre_noise(case):
    """somebody else compiles something odd in the same process first (outcome irrelevant); compiling the case under test
    must not care"""
    t = case.get("noise") if isinstance(case, dict) else None
    if t:
        sut.compile_text(t)
        return ["after-noise-compile"]
    return []


def reset_after_violation():
    for _ in range(2):
        sut.compile_text(RESET_TEXT)


def short_value(v):
    """a printable stand-in for values whose repr is huge or impossible (ints beyond CPython's int->str limit, lone surrogates)"""
    if isinstance(v, int) and not isinstance(v, bool) and v.bit_length() > 200:
        return "<int of %d bits>" % v.bit_length()
    if isinstance(v, str):
        v = v.encode("utf-8", "backslashreplace").decode("utf-8")
        return v[:40] + "..." if len(v) > 60 else v
    if isinstance(v, (tuple, list)):
        return type(v)(short_value(x) for x in v)
    return v


def short_env(env):
    return {k: short_value(v) for k, v in env.items()}


# --------------------------------------------------------------------------- interpreter-wide state (must be left alone)
def global_state():
    """a snapshot of interpreter-wide settings that a library call has no business changing"""
    import decimal
    import gc
    import locale
    import logging
    import os
    import sys
    import threading
    import warnings

    ctx = decimal.getcontext()
    try:
        loc = locale.setlocale(locale.LC_ALL)
    except locale.Error:
        loc = "?"
    return {
        "sys.get_int_max_str_digits()": sys.get_int_max_str_digits(),
        "sys.getrecursionlimit()": sys.getrecursionlimit(),
        "sys.getswitchinterval()": sys.getswitchinterval(),
        "decimal context": (ctx.prec, ctx.rounding, ctx.Emax, ctx.Emin),
        "locale": loc,
        "number of warning filters": len(warnings.filters),
        "os.getcwd()": os.getcwd(),
        "os.environ": hash(tuple(sorted(os.environ.items()))),
        "sys.path": tuple(sys.path),
        "gc.isenabled()": gc.isenabled(),
        "root logger (level, handlers, disable)": (logging.getLogger().level, len(logging.getLogger().handlers), logging.root.manager.disable),
        "non-daemon threads": sum(1 for t in threading.enumerate() if not t.daemon),
        "sys.stdout / sys.stderr objects": (id(sys.stdout), id(sys.stderr)),
        "open file descriptors": _open_fds(),
    }


def _open_fds():
    import os

    try:
        return len(os.listdir("/proc/self/fd"))
    except OSError:
        return -1


def state_diff(before, after):
    return ["%s changed from %r to %r" % (k, before[k], after[k]) for k in before if before[k] != after[k]]


class ambient:
    """run a block under non-default (but legal) interpreter-wide settings and restore them afterwards"""

    def __init__(self, int_digits=None, recursion=None, prec=None, debug_logging=False):
        self.int_digits, self.recursion, self.prec, self.debug_logging = int_digits, recursion, prec, debug_logging

    def __enter__(self):
        import decimal
        import sys

        self.old = (sys.get_int_max_str_digits(), sys.getrecursionlimit(), decimal.getcontext().prec)
        if self.int_digits is not None:
            sys.set_int_max_str_digits(self.int_digits)
        if self.recursion is not None:
            sys.setrecursionlimit(self.recursion)
        if self.prec is not None:
            decimal.getcontext().prec = self.prec
        if self.debug_logging:
            import logging

            root = logging.getLogger()
            self.log_state = (root.level, logging.root.manager.disable)
            self.handler = logging.NullHandler()
            self.handler.setLevel(logging.DEBUG)
            root.addHandler(self.handler)
            root.setLevel(logging.DEBUG)
            logging.disable(logging.NOTSET)
        return self

    def __exit__(self, *a):
        import decimal
        import sys

        sys.set_int_max_str_digits(self.old[0])
        sys.setrecursionlimit(self.old[1])
        decimal.getcontext().prec = self.old[2]
        if self.debug_logging:
            import logging

            root = logging.getLogger()
            root.removeHandler(self.handler)
            root.setLevel(self.log_state[0])
            logging.disable(self.log_state[1])
        return False


def restore_state(snapshot):
    """after a violation: put back what can be put back, so that the shrinker and later cases start from a clean process"""
    import sys

    sys.set_int_max_str_digits(snapshot["sys.get_int_max_str_digits()"])
    sys.setrecursionlimit(snapshot["sys.getrecursionlimit()"])
    sys.setswitchinterval(snapshot["sys.getswitchinterval()"])


def refused_deploy(ev, text):
    """hand a live evaluator a broken version of `text` (a typo: the text is refused) - what a deploy pipeline does now and then;
    whatever happens must not keep the next recompile from taking effect"""
    broken = text.rstrip()
    broken = broken[:-1] if broken.endswith("}") else broken + " ;"
    try:
        ev.recompile(broken)
    except Exception:
        pass


# --------------------------------------------------------------------------- recompile with recycled object ids
def _fresh(text):
    """a brand-new str object with this content (never an interned constant)"""
    return "".join([text[:1], text[1:]]) if text else str(bytes(0), "ascii")


def recycled_recompile(ev, prev_text, next_text, tries=64):
    """hand `next_text` to ev.recompile() the way a poller does that renders / reads its text anew on every tick and keeps no
    reference: the previous text object has been dropped and collected, and the new one - padded with trailing blanks to the same
    size - sits at the freed address, so id(new) == id(old).  Anything that remembers only an object id cannot tell them apart.
    Exceptions of the final recompile propagate.  -> True if the id really was recycled"""
    import gc

    n = max(len(prev_text), len(next_text))
    if prev_text.isascii() != next_text.isascii():
        ev.recompile(_fresh(next_text))  # different character widths: different object sizes, no recycling possible
        return False
    p = _fresh(prev_text + " " * (n - len(prev_text)))
    try:
        ev.recompile(p)
    except Exception:
        pass  # (the previous text may itself be one the evaluator refuses)
    pid = id(p)
    del p
    gc.collect(1)  # the young generations are enough for the cycle that the last compile left behind (a full collection is slow)
    keep = []
    c = None
    for _ in range(tries):
        c = _fresh(next_text + " " * (n - len(next_text)))
        if id(c) == pid:
            break
        keep.append(c)
    reused = id(c) == pid
    del keep
    ev.recompile(c)
    return reused


INDENTS = ["    ", "  ", " ", "\t\t", "\t"]


def rendered_with_options(text, name):
    """-> [(label, function | None, error | None)]: the module rendered with every indentation string x both layouts
    (documented PythonCodeGen options), compiled and executed"""
    ast_ = sut.wrappers().parse_source(text)
    G = sut.codegen().PythonCodeGen
    out = []
    for ind in INDENTS:
        for expose in (False, True):
            label = "PythonCodeGen(indentation_char=%r, expose_experiment_variant_function=%r)" % (ind, expose)
            try:
                ns = {}
                exec(compile(G(ast_, indentation_char=ind, expose_experiment_variant_function=expose).generate(), "<options>", "exec"), ns)
                out.append((label, ns[name], None))
            except Exception as e:
                out.append((label, None, "%s: %s" % (type(e).__name__, str(e)[:200])))
    return out


def rendered_again(text, name, expose=False):
    """the function defined by the SECOND generate() of one code generator (followed by other renderings of the same parsed AST):
    rendering must not change the generator or the AST, so this function is as good as the first"""
    ast_ = sut.wrappers().parse_source(text)
    G = sut.codegen().PythonCodeGen
    g = G(ast_, expose_experiment_variant_function=expose)
    first = g.generate()
    second = g.generate()
    other = G(ast_, expose_experiment_variant_function=not expose).generate()
    third = G(ast_, expose_experiment_variant_function=expose).generate()
    ns = {}
    exec(compile(second, "<second-generate>", "exec"), ns)
    return ns[name], {"first == second": first == second, "first == fresh generator on the same AST": first == third, "other layout renders": bool(other)}
