"""Runs judge_case of a property on a list of saved cases inside a child interpreter started with special flags
(python -O, -W error, another PYTHONHASHSEED ...).   usage: child_judge.py <ID> <cases.json>  -> JSON list of message lists"""
import json
import os
import sys


def main():
    pid, path = sys.argv[1], sys.argv[2]
    real_out = sys.stdout
    sys.stdout = open(os.devnull, "w")
    sys.stderr = open(os.devnull, "w")
    import importlib

    if os.environ.get("PYAB_ENVSPY"):
        from pyabverif import envspy

        envspy.install()
    mod = importlib.import_module("pyabverif.props." + pid.lower())
    with open(path, encoding="ascii") as f:
        cases = json.load(f)
    fn = getattr(mod, "child_entry", None) or (lambda c: mod.judge_case({"case": c}))
    out = []
    for c in cases:
        try:
            out.append(fn(c))
        except Exception as e:  # a crash of the judge itself is reported, not hidden
            out.append(["child judge crashed: %s: %s" % (type(e).__name__, e)])
    real_out.write(json.dumps({"flags": {"optimize": sys.flags.optimize, "hashseed": os.environ.get("PYTHONHASHSEED")}, "results": out,
                               "env_keys": sys.modules["pyabverif.envspy"].keys() if "pyabverif.envspy" in sys.modules else []},
                              ensure_ascii=True))


if __name__ == "__main__":
    main()
