"""Harness-owned, deterministic line-level thread scheduler.

N worker threads each run one operation.  A sys.settrace tracer installed in each worker counts `line` events of frames
whose code lives under pyab_experiment/ or in generated code ("<string>"); a schedule is a list of (thread, run_length);
after its run length the running thread hands control back and blocks.  Exactly one worker is runnable at any time, so an
execution is a pure function of (operations, schedule)."""
import sys
import threading


class Stuck(Exception):
    pass


class Scheduler:
    def __init__(self, ops, schedule, match=("pyab_experiment", "<string>"), timeout=30.0, cycle=True):
        self.ops = ops
        self.schedule = list(schedule)
        self.match = match
        self.timeout = timeout
        self.max_handoffs = 3000 if cycle else len(self.schedule)
        n = len(ops)
        self.gates = [threading.Semaphore(0) for _ in range(n)]
        self.control = threading.Semaphore(0)
        self.done = [False] * n
        self.results = [None] * n
        self.budget = 0
        self.handoffs = 0
        self.overlap_handoffs = 0  # hand-offs while >=2 threads were mid-operation
        self.started = [False] * n
        self.lines = [0] * n
        self.log = None  # set to [] to record (file, line) of every traced line of thread 0

    def _wait_turn(self, i):
        if not self.gates[i].acquire(timeout=self.timeout):
            raise Stuck("thread %d never got its turn" % i)

    def _make_tracer(self, i):
        match = self.match

        def local(frame, event, arg):
            if event == "line":
                self.lines[i] += 1
                if i == 0 and self.log is not None:
                    self.log.append((frame.f_code.co_filename, frame.f_lineno))
                self.budget -= 1
                if self.budget <= 0:
                    self.control.release()
                    self._wait_turn(i)
            return local

        def glob(frame, event, arg):
            fn = frame.f_code.co_filename
            for m in match:
                if m in fn:
                    return local
            return None

        return glob

    def _worker(self, i):
        try:
            self._wait_turn(i)
            self.started[i] = True
            sys.settrace(self._make_tracer(i))
            try:
                self.results[i] = ("ok", self.ops[i]())
            except Stuck:
                raise
            except BaseException as e:  # the operation's own failure is a result
                self.results[i] = ("exc", type(e).__name__, str(e)[:300])
            finally:
                sys.settrace(None)
        finally:
            self.done[i] = True
            self.control.release()

    def run(self):
        n = len(self.ops)
        threads = [threading.Thread(target=self._worker, args=(i,), daemon=True) for i in range(n)]
        for t in threads:
            t.start()
        steps = list(self.schedule)
        pos = 0
        rr = 0
        while not all(self.done):
            alive = [i for i in range(n) if not self.done[i]]
            if steps and pos < self.max_handoffs:
                tid, runlen = steps[pos % len(steps)]  # the schedule is cycled so hand-offs cover the whole run
                pos += 1
                i = alive[tid % len(alive)]
            else:
                i = alive[rr % len(alive)]
                rr += 1
                runlen = 10 ** 9  # run to completion once the schedule is exhausted
            others_mid = any(self.started[j] and not self.done[j] for j in range(n) if j != i)
            self.budget = max(1, runlen)
            self.gates[i].release()
            if not self.control.acquire(timeout=self.timeout):
                raise Stuck("thread %d did not yield within %.0fs" % (i, self.timeout))
            self.handoffs += 1
            if others_mid:
                self.overlap_handoffs += 1  # thread i ran while another thread was suspended mid-operation
        for t in threads:
            t.join(timeout=self.timeout)
        return self.results
