"""Reference interpreter of the DSL over my own model (no code shared with the repo).

run(program, inputs) -> ("return", index_of_return_statement_in_source_order) | ("unroutable",)

Reading: nested if / else if / else.  Once a branch's block is entered, falling out of an inner
conditional without a match is *unroutable*: it does not continue with an outer else.
"""
from . import model


class MissingField(Exception):
    pass


def term_value(t, env):
    k = t["k"]
    if k == "lit":
        return model.lit_value(t)
    if k == "id":
        if t["name"] not in env:
            raise MissingField(t["name"])
        return env[t["name"]]
    return tuple(term_value(x, env) for x in t["items"])


def cmp_value(op, a, b):
    if op == "==":
        return a == b
    if op == "!=":
        return a != b
    if op == ">":
        return a > b
    if op == "<":
        return a < b
    if op == ">=":
        return a >= b
    if op == "<=":
        return a <= b
    if op == "in":
        return a in b
    if op == "not in":
        return a not in b
    raise ValueError(op)


def pred_value(p, env):
    k = p["k"]
    if k == "cmp":
        return bool(cmp_value(p["op"], term_value(p["l"], env), term_value(p["r"], env)))
    if k == "not":
        return not pred_value(p["p"], env)
    if k == "and":
        return pred_value(p["l"], env) and pred_value(p["r"], env)
    if k == "or":
        return pred_value(p["l"], env) or pred_value(p["r"], env)
    raise ValueError(k)


def run(prog, env):
    rets = model.returns(prog["body"])
    ids = {id(r): i for i, r in enumerate(rets)}

    def go(b):
        if b["k"] == "ret":
            return ("return", ids[id(b)])
        for p, body in b["branches"]:
            if pred_value(p, env):
                return go(body)
        if b["else"] is not None:
            return go(b["else"])
        return ("unroutable",)

    return go(prog["body"])


def group_values(ret):
    return [model.lit_value(g["lit"]) for g in ret["groups"]]
