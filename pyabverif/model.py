"""My own model of the experiment DSL (plain JSON-able dicts; nothing imported from the repo),
its renderer to a token list / text, and tagged JSON encoding of run-time values.

program : {"name": str, "salt": None | {"v": str, "q": "'" | '"'}, "splitters": None | [str], "body": body}
body    : {"k": "ret", "groups": [{"lit": lit, "w": "<weight source text>"}]}
        | {"k": "if", "branches": [[pred, body], ...], "else": body | None}      (branches[0] = if, rest = else if)
pred    : {"k": "cmp", "l": term, "op": OP, "r": term, "paren": n}
        | {"k": "not", "p": pred, "paren": n} | {"k": "and"|"or", "l": pred, "r": pred, "paren": n}
term    : lit | {"k": "id", "name": str} | {"k": "tuple", "items": [term]}
lit     : {"k": "lit", "t": "str", "v": str, "q": quote} | {"k": "lit", "t": "int"|"float", "src": digits, "neg": bool}
"""
import math

OPS = ["==", "!=", ">", "<", ">=", "<=", "in", "not in"]
OP_TOKEN = {"==": "EQ", "!=": "NE", ">": "GT", "<": "LT", ">=": "GE", "<=": "LE", "in": "IN",
            "not in": "NOT_IN"}
DSL_KEYWORDS = {"def", "salt", "splitters", "if", "else", "weighted", "return", "and", "or", "not", "in"}


# --------------------------------------------------------------------------- values <-> JSON
class Bomb:
    """a field value whose every use raises an exception WITHOUT arguments (a bare `raise NotImplementedError`, as abstract
    placeholders do): the evaluator and the generated module must fail in the same way"""

    EXCS = {"NotImplementedError": NotImplementedError, "KeyError": KeyError, "ValueError": ValueError, "ZeroDivisionError": ZeroDivisionError}

    def __init__(self, name):
        self.name = name

    def _boom(self, *a, **k):
        raise self.EXCS[self.name]

    __eq__ = __ne__ = __lt__ = __le__ = __gt__ = __ge__ = __contains__ = __str__ = __iter__ = __len__ = _boom

    def __hash__(self):
        raise self.EXCS[self.name]

    def __repr__(self):
        return "<value whose every use raises a bare %s>" % self.name


class StrSub(str):
    """a str whose str() differs from its content (a str-mixin Enum member prints 'Tier.GOLD', an id wrapper prints its canonical
    form): str() of the value is what the scheme hashes"""

    def __new__(cls, raw, shown):
        o = super().__new__(cls, raw)
        o.shown = shown
        return o

    def __str__(self):
        return self.shown

    def __repr__(self):
        return "StrSub(%s, str()=%r)" % (str.__repr__(self), self.shown)


class IntSub(int):
    """an int whose str() differs from its number (an IntFlag / a named constant)"""

    def __new__(cls, raw, shown):
        o = super().__new__(cls, raw)
        o.shown = shown
        return o

    def __str__(self):
        return self.shown

    def __repr__(self):
        return "IntSub(%d, str()=%r)" % (int(self), self.shown)


class Handle:
    """a plain object (equal only to itself); `Handle.get(n)` returns the same object for the same n, so several fields of one
    input - and a member of a list field - can hold ONE object"""

    _all = {}

    def __init__(self, n):
        self.n = n

    @classmethod
    def get(cls, n):
        if n not in cls._all:
            cls._all[n] = cls(n)
        return cls._all[n]

    def __repr__(self):
        return "<handle #%d>" % self.n


def enc(v):
    import decimal
    import fractions

    if isinstance(v, decimal.Decimal):
        return {"t": "decimal", "v": str(v)}
    if isinstance(v, fractions.Fraction):
        return {"t": "fraction", "v": "%d/%d" % (v.numerator, v.denominator)}
    if isinstance(v, Handle):
        return {"t": "handle", "v": v.n}
    if type(v).__name__ == "lock":
        return {"t": "lock"}
    if isinstance(v, Bomb):
        return {"t": "bomb", "v": v.name}
    if isinstance(v, StrSub):
        return {"t": "strsub", "v": "".join(v), "s": v.shown}
    if isinstance(v, IntSub):
        return {"t": "intsub", "v": int(v), "s": v.shown}
    if v is None:
        return {"t": "none"}
    if isinstance(v, bool):
        return {"t": "bool", "v": v}
    if isinstance(v, int):
        if abs(v) >= 1 << 13000:  # beyond CPython's int -> decimal text limit: hexadecimal has no such limit
            return {"t": "int", "v": hex(v)}
        return {"t": "int", "v": str(v)}
    if isinstance(v, float):
        return {"t": "float", "v": v.hex() if math.isfinite(v) else repr(v)}
    if isinstance(v, str):
        return {"t": "str", "v": v}
    if isinstance(v, (bytes, bytearray)):
        return {"t": type(v).__name__, "v": bytes(v).hex()}
    if isinstance(v, tuple):
        return {"t": "tuple", "v": [enc(x) for x in v]}
    if isinstance(v, list):
        return {"t": "list", "v": [enc(x) for x in v]}
    if isinstance(v, frozenset):
        return {"t": "frozenset", "v": sorted((enc(x) for x in v), key=repr)}
    if isinstance(v, set):
        return {"t": "set", "v": sorted((enc(x) for x in v), key=repr)}
    raise TypeError("cannot encode %r" % (v,))


def dec(d):
    t = d["t"]
    if t == "decimal":
        import decimal

        return decimal.Decimal(d["v"])
    if t == "fraction":
        import fractions

        return fractions.Fraction(d["v"])
    if t == "bomb":
        return Bomb(d["v"])
    if t == "strsub":
        return StrSub(d["v"], d["s"])
    if t == "intsub":
        return IntSub(d["v"], d["s"])
    if t == "handle":
        return Handle.get(d["v"])
    if t == "lock":
        import threading

        return threading.Lock()
    if t == "none":
        return None
    if t == "bool":
        return bool(d["v"])
    if t == "int":
        return int(d["v"], 0) if "x" in d["v"] else int(d["v"])
    if t == "float":
        s = d["v"]
        return float.fromhex(s) if "x" in s else float(s)
    if t == "str":
        return d["v"]
    if t == "bytes":
        return bytes.fromhex(d["v"])
    if t == "bytearray":
        return bytearray.fromhex(d["v"])
    if t == "tuple":
        return tuple(dec(x) for x in d["v"])
    if t == "list":
        return [dec(x) for x in d["v"]]
    if t == "frozenset":
        return frozenset(dec(x) for x in d["v"])
    if t == "set":
        return set(dec(x) for x in d["v"])
    raise ValueError(t)


def enc_inputs(d):
    return {k: enc(v) for k, v in d.items()}


def dec_inputs(d):
    return {k: dec(v) for k, v in d.items()}


# --------------------------------------------------------------------------- constructors
def lit_str(v, q='"'):
    return {"k": "lit", "t": "str", "v": v, "q": q}


def lit_int(src, neg=False):
    return {"k": "lit", "t": "int", "src": str(src), "neg": bool(neg)}


def lit_float(src, neg=False):
    return {"k": "lit", "t": "float", "src": str(src), "neg": bool(neg)}


def lit_of(v):
    """model literal for a python value (str/int/float)"""
    if isinstance(v, str):
        return lit_str(v, "'" if '"' in v else '"')
    if isinstance(v, bool):
        raise TypeError
    if isinstance(v, int):
        return lit_int(str(abs(v)), v < 0)
    if isinstance(v, float):
        s = format(abs(v), "f") if abs(v) >= 1e-4 or v == 0 else format(abs(v), ".20f")
        s = repr(abs(v)) if ("e" not in repr(abs(v))) else s
        if "." not in s:
            s += ".0"
        return lit_float(s, math.copysign(1, v) < 0)
    raise TypeError(v)


def ident(name):
    return {"k": "id", "name": name}


def tup(items):
    return {"k": "tuple", "items": list(items)}


def cmp_(l, op, r, paren=0):
    return {"k": "cmp", "l": l, "op": op, "r": r, "paren": paren}


def not_(p, paren=0):
    return {"k": "not", "p": p, "paren": paren}


def and_(l, r, paren=0):
    return {"k": "and", "l": l, "r": r, "paren": paren}


def or_(l, r, paren=0):
    return {"k": "or", "l": l, "r": r, "paren": paren}


def ret(groups):
    return {"k": "ret", "groups": [{"lit": g, "w": w} for g, w in groups]}


def if_(branches, else_=None):
    return {"k": "if", "branches": [[p, b] for p, b in branches], "else": else_}


def program(name, body, salt=None, splitters=None, salt_q='"'):
    return {"name": name, "salt": None if salt is None else {"v": salt, "q": salt_q},
            "splitters": None if splitters is None else list(splitters), "body": body}


# --------------------------------------------------------------------------- semantics of literals
def lit_value(l):
    if l["t"] == "str":
        return l["v"]
    if l["t"] == "int":
        v = int(l["src"])
        return -v if l["neg"] else v
    v = float(l["src"])
    return -v if l["neg"] else v


def weight_value(w):
    return float(w) if "." in w else int(w)


# --------------------------------------------------------------------------- walking
def returns(body):
    """all return statements in source order"""
    if body["k"] == "ret":
        return [body]
    res = []
    for _, b in body["branches"]:
        res.extend(returns(b))
    if body["else"] is not None:
        res.extend(returns(body["else"]))
    return res


def preds(body):
    if body["k"] == "ret":
        return []
    res = []
    for p, b in body["branches"]:
        res.append(p)
        res.extend(preds(b))
    if body["else"] is not None:
        res.extend(preds(body["else"]))
    return res


def cmps(pred):
    k = pred["k"]
    if k == "cmp":
        return [pred]
    if k == "not":
        return cmps(pred["p"])
    return cmps(pred["l"]) + cmps(pred["r"])


def term_idents(t):
    if t["k"] == "id":
        return [t["name"]]
    if t["k"] == "tuple":
        res = []
        for x in t["items"]:
            res.extend(term_idents(x))
        return res
    return []


def term_lits(t):
    if t["k"] == "lit":
        return [t]
    if t["k"] == "tuple":
        res = []
        for x in t["items"]:
            res.extend(term_lits(x))
        return res
    return []


def condition_fields(prog):
    names = []
    for p in preds(prog["body"]):
        for c in cmps(p):
            for n in term_idents(c["l"]) + term_idents(c["r"]):
                if n not in names:
                    names.append(n)
    return names


def all_fields(prog):
    names = list(prog["splitters"] or [])
    for n in condition_fields(prog):
        if n not in names:
            names.append(n)
    return names


def all_identifiers(prog):
    return [prog["name"]] + all_fields(prog)


def depth(body):
    if body["k"] == "ret":
        return 0
    ds = [depth(b) for _, b in body["branches"]]
    if body["else"] is not None:
        ds.append(depth(body["else"]))
    return 1 + max(ds)


def max_chain(body):
    if body["k"] == "ret":
        return 0
    m = len(body["branches"])
    for _, b in body["branches"]:
        m = max(m, max_chain(b))
    if body["else"] is not None:
        m = max(m, max_chain(body["else"]))
    return m


def pred_depth(p):
    if p["k"] == "cmp":
        return 0
    if p["k"] == "not":
        return 1 + pred_depth(p["p"])
    return 1 + max(pred_depth(p["l"]), pred_depth(p["r"]))


# --------------------------------------------------------------------------- rendering to tokens
def lit_tokens(l):
    if l["t"] == "str":
        return [("STRING", l["q"] + l["v"] + l["q"])]
    toks = [("MINUS", "-")] if l["neg"] else []
    toks.append(("INT" if l["t"] == "int" else "FLOAT", l["src"]))
    return toks


def term_tokens(t):
    if t["k"] == "lit":
        return lit_tokens(t)
    if t["k"] == "id":
        return [("ID", t["name"])]
    toks = [("LPAREN", "(")]
    for i, x in enumerate(t["items"]):
        if i:
            toks.append(("COMMA", ","))
        toks.extend(term_tokens(x))
    toks.append(("RPAREN", ")"))
    return toks


_PREC = {"or": 1, "and": 2, "not": 3, "cmp": 4}


def pred_tokens(p):
    k = p["k"]
    if k == "cmp":
        toks = term_tokens(p["l"]) + [(OP_TOKEN[p["op"]], p["op"])] + term_tokens(p["r"])
    elif k == "not":
        inner = pred_tokens(p["p"])
        # `not` binds tighter than and/or: a binary operand needs parentheses
        if p["p"]["k"] in ("and", "or") and not p["p"].get("paren"):
            inner = [("LPAREN", "(")] + inner + [("RPAREN", ")")]
        toks = [("NOT", "not")] + inner
    else:
        me = _PREC[k]
        lt = pred_tokens(p["l"])
        # NOTE a `not` on the left swallows nothing to its right (highest precedence), no parens needed
        if _PREC[p["l"]["k"]] < me and not p["l"].get("paren"):
            lt = [("LPAREN", "(")] + lt + [("RPAREN", ")")]
        rt = pred_tokens(p["r"])
        # left-associative grammar: a same-or-lower precedence binary node on the right needs parentheses
        if p["r"]["k"] in ("and", "or") and _PREC[p["r"]["k"]] <= me and not p["r"].get("paren"):
            rt = [("LPAREN", "(")] + rt + [("RPAREN", ")")]
        toks = lt + [("AND" if k == "and" else "OR", k)] + rt
    for _ in range(p.get("paren", 0)):
        toks = [("LPAREN", "(")] + toks + [("RPAREN", ")")]
    return toks


def body_tokens(b):
    if b["k"] == "ret":
        toks = [("RETURN", "return")]
        for i, g in enumerate(b["groups"]):
            if i:
                toks.append(("COMMA", ","))
            toks.extend(lit_tokens(g["lit"]))
            toks.append(("WEIGHTED", "weighted"))
            toks.append(("FLOAT" if "." in g["w"] else "INT", g["w"]))
        return toks
    toks = []
    for i, (p, body) in enumerate(b["branches"]):
        toks.append(("IF", "if") if i == 0 else ("ELIF", "else if"))
        toks.extend(pred_tokens(p))
        toks.append(("LBRACE", "{"))
        toks.extend(body_tokens(body))
        toks.append(("RBRACE", "}"))
    if b["else"] is not None:
        toks.append(("ELSE", "else"))
        toks.append(("LBRACE", "{"))
        toks.extend(body_tokens(b["else"]))
        toks.append(("RBRACE", "}"))
    return toks


def program_tokens(prog):
    toks = [("DEF", "def"), ("ID", prog["name"]), ("LBRACE", "{")]
    if prog["salt"] is not None:
        s = prog["salt"]
        toks += [("SALT", "salt"), ("COLON", ":"), ("STRING", s["q"] + s["v"] + s["q"])]
    if prog["splitters"] is not None:
        toks += [("SPLITTERS", "splitters"), ("COLON", ":")]
        for i, n in enumerate(prog["splitters"]):
            if i:
                toks.append(("COMMA", ","))
            toks.append(("ID", n))
    toks += body_tokens(prog["body"])
    toks.append(("RBRACE", "}"))
    return toks


def tokens_text(toks, sep=" "):
    return sep.join(t for _, t in toks)


def render(prog):
    return tokens_text(program_tokens(prog))


# The only character (besides its own delimiter) that a DSL string cannot hold: the implementation's string pattern is
# `.`-based and `.` excludes only LF.  CR, VT, FF, FS/GS/RS, NEL, LS and PS are legal string content and are generated on
# purpose - Python's tokenizer treats several of them as line ends, which is exactly where naive embedding of source text
# into generated code breaks.
LINE_BREAKS = "\n"
ODD_LINE_CHARS = ["\r", "\x0b", "\x0c", "\x1c", "\x1d", "\x1e", "\x85", "\u2028", "\u2029"]


def valid_string_content(s, q):
    """can s be the content of a DSL string delimited by q?"""
    return q not in s and "\n" not in s
